"""Mutation catalogue: one-obligation breakages ("fire") and behaviour-preserving twins ("silent").

Each entry: id, props (checks to run), file (under src/rnapolis), old/new text (exactly `count` occurrences,
default 1) or edits=[(old,new),...], kind fire|silent, rule (rule id that must report it; None = any).
"""

def M(id, props, file, old, new, rule=None, kind="fire", count=1, **kw):
    return dict(id=id, props=props if isinstance(props, list) else [props], file=file, old=old, new=new, rule=rule, kind=kind, count=count, **kw)


MUTANTS = []
A = MUTANTS.append

# ---------------------------------------------------------------- C01 / C13 / C16 / C02 (common.py)
C = "common.py"
A(M("c01-brackets-swap", "C01", C, '["()", "[]", "{}", "<>"]', '["()", "[]", "<>", "{}"]', "alphabet-agree"))
A(M("c01-closing-upper", "C01", C, 'closing = ")]}>" + string.ascii_lowercase', 'closing = ")]}>" + string.ascii_uppercase', "alphabet-agree"))
A(M("c01-conflict-convert", "C01", C, "            if (k < m < l < n) or (m < k < n < l):\n                graph[i].add(j)\n                graph[j].add(i)\n\n        # return all", "            if (k < m < n < l) or (m < k < n < l):\n                graph[i].add(j)\n                graph[j].add(i)\n\n        # return all", "conflict-predicate"))
A(M("c01-conflict-fcfs-drop", "C01", C, "conflicted = (k < m < l < n) or (m < k < n < l)", "conflicted = k < m < l < n", "conflict-predicate"))
A(M("c01-conflict-all", "C01", C, "            if (k < m < l < n) or (m < k < n < l):\n                graph[i].add(j)\n                graph[j].add(i)\n\n        # early exit", "            if (k < m < l < n) or (m < k < l < n):\n                graph[i].add(j)\n                graph[j].add(i)\n\n        # early exit", "conflict-predicate"))
A(M("c01-conflict-le-silent", ["C01", "C02", "C16"], C, "conflicted = (k < m < l < n) or (m < k < n < l)", "conflicted = (k <= m <= l <= n) or (m <= k <= n <= l)", kind="silent"))
A(M("c01-fill-offby1", "C01", C, "structure[j - 1] = bracket[0]", "structure[j] = bracket[0]", "fill-stores"))
A(M("c01-fill-trips", "C01", C, "while n > 0:", "while n > 1:", "fill-trips"))
A(M("c01-fill-dir", "C01", C, "                k -= 1\n", "                k += 1\n", "fill-stores"))
A(M("c01-fill-bracket-swap", "C01", C, "structure[k - 1] = bracket[1]", "structure[k - 1] = bracket[0]", "fill-stores"))
A(M("c01-fill-for-silent", ["C01", "C13"], C, "            while n > 0:\n                structure[j - 1] = bracket[0]\n                structure[k - 1] = bracket[1]\n                j += 1\n                k -= 1\n                n -= 1\n", "            for t in range(n):\n                structure[j - 1 + t] = bracket[0]\n                structure[k - 1 - t] = bracket[1]\n", kind="silent"))
A(M("c01-run-cond", "C01", C, "if i == k + 1 and j == l - 1:", "if i == k + 1 and j == l + 1:", "stems-run"))
A(M("c01-run-cond-silent", "C01", C, "if i == k + 1 and j == l - 1:", "if k == i - 1 and l - j == 1:", kind="silent"))
A(M("c01-region-last", "C01", C, "(stem_entries[0].index_, stem_entries[0].pair, len(stem_entries))\n            for stem_entries in self.__stems_entries\n        ]\n\n    @cached_property\n    def dot_bracket", "(stem_entries[0].index_, stem_entries[-1].pair, len(stem_entries))\n            for stem_entries in self.__stems_entries\n        ]\n\n    @cached_property\n    def dot_bracket", "region-triple"))
A(M("c01-pop0", "C01", C, "begins[begin].pop()", "begins[begin].pop(0)", "decoder-lifo"))
A(M("c01-fromdb-shift", "C01", C, "entries[j].pair = i + 1", "entries[j].pair = i", "from-db-pairs"))
A(M("c01-fromdb-drop", "C01", C, "            entries[j].pair = i + 1\n", "", "from-db-pairs"))
A(M("c01-fcfs-range", ["C01", "C13"], C, "            for j in range(i):\n                m, n, _ = regions[j]", "            for j in range(i - 1):\n                m, n, _ = regions[j]", "fcfs-earlier"))
A(M("c01-fcfs-break", ["C01", "C13"], C, "                if conflicted:\n                    available[orders[j]] = False\n", "                if conflicted:\n                    available[orders[j]] = False\n                    break\n", "fcfs-scan-exit"))
A(M("c01-fcfs-avail-hoist", "C01", C, "        for i in range(1, len(regions)):\n            k, l, _ = regions[i]\n            available = [True for _ in range(len(\"([{<\" + string.ascii_uppercase))]\n", "        available = [True for _ in range(len(\"([{<\" + string.ascii_uppercase))]\n        for i in range(1, len(regions)):\n            k, l, _ = regions[i]\n", "fcfs-available-reset"))
A(M("c01-fcfs-region-swap", ["C01", "C13"], C, "(stem_entries[0].index_, stem_entries[0].pair, len(stem_entries))\n            for stem_entries in self.__stems_entries\n        ]\n        orders = [0 for i", "(stem_entries[0].pair, stem_entries[0].index_, len(stem_entries))\n            for stem_entries in self.__stems_entries\n        ]\n        orders = [0 for i", "region-triple"))
A(M("c01-fcfs-region-last", ["C01", "C13"], C, "(stem_entries[0].index_, stem_entries[0].pair, len(stem_entries))\n            for stem_entries in self.__stems_entries\n        ]\n        orders = [0 for i", "(stem_entries[-1].index_, stem_entries[0].pair, len(stem_entries))\n            for stem_entries in self.__stems_entries\n        ]\n        orders = [0 for i", "region-triple"))
A(M("c13-fcfs-count-false", ["C01", "C13"], C, "order = next(filter(lambda i: available[i] is True, range(len(available))))", "order = available.count(False)", "fcfs-choice"))
A(M("c13-fcfs-last-free", ["C01", "C13"], C, "order = next(filter(lambda i: available[i] is True, range(len(available))))", "order = max(k for k in range(len(available)) if available[k])", "fcfs-choice"))
A(M("c13-fcfs-index-silent", ["C01", "C13"], C, "order = next(filter(lambda i: available[i] is True, range(len(available))))", "order = available.index(True)", kind="silent"))
A(M("c13-objective-fmt", "C13", C, "        # if problem is infeasible, fallback to FCFS\n", "        logging.debug(f\"objective {pulp.value(problem.objective):.1f}\")\n        # if problem is infeasible, fallback to FCFS\n", "value-before-optimal"))
A(M("c13-objective-log-silent", "C13", C, "        # if problem is infeasible, fallback to FCFS\n", "        logging.debug(f\"objective {pulp.value(problem.objective)}\")\n        # if problem is infeasible, fallback to FCFS\n", kind="silent"))
A(M("c01-paired-filter", "C01", C, "lambda entry: entry.index_ < entry.pair", "lambda entry: entry.index_ > entry.pair", "stems-filter"))
A(M("c01-rename-silent", ["C01", "C02", "C13", "C16"], C, "            ri, rj = regions[i], regions[j]\n            k, l, _ = ri\n            m, n, _ = rj\n\n            # is pseudoknot?\n            if (k < m < l < n) or (m < k < n < l):\n                graph[i].add(j)\n                graph[j].add(i)\n\n        # return all", "            a0, a1, _ = regions[i]\n            b0, b1, _ = regions[j]\n\n            if (b0 < a0 < b1 < a1) or (a0 < b0 < a1 < b1):\n                graph[j].add(i)\n                graph[i].add(j)\n\n        # return all", kind="silent"))

# ---------------------------------------------------------------- C13
A(M("c13-call-property", "C13", C, "        if solver is None:\n            return self.fcfs\n", "        if solver is None:\n            return self.fcfs()\n", "attr-kind"))
A(M("c13-narrow-handler", "C13", C, "except pulp.PulpSolverError:", "except KeyError:", "solve-handled"))
A(M("c13-drop-status", "C13", C, "        if problem.status != pulp.LpStatusOptimal:\n            logging.warning(\"POA: problem is infeasible, fallback to FCFS\")\n            return self.fcfs\n", "", "readback-after-optimal"))
A(M("c13-status-infeasible-only", "C13", C, "if problem.status != pulp.LpStatusOptimal:", "if problem.status == pulp.LpStatusInfeasible:", ["readback-after-optimal", "status-branch"]))
A(M("c13-fallback-flat", "C13", C, "            logging.warning(\"POA: problem is infeasible, fallback to FCFS\")\n            return self.fcfs\n", "            logging.warning(\"POA: problem is infeasible, fallback to FCFS\")\n            return self.__make_dot_bracket(regions, [0 for _ in range(len(regions))])\n", "fallback-is-fcfs"))
A(M("c13-msg-before-none", "C13", C, "        if solver is not None:\n            solver.msg = False\n", "        solver.msg = False\n", "solver-none-guard"))
A(M("c13-handler-reraise", "C13", C, "                \"POA: failed to solve problem using MILP approach, fallback to FCFS\"\n            )\n            return self.fcfs\n", "                \"POA: failed to solve problem using MILP approach, fallback to FCFS\"\n            )\n            raise\n", "handler-no-raise"))

# ---------------------------------------------------------------- C02
A(M("c02-drop-order", "C02", C, "terms.append(-1 * var * length * order)", "terms.append(-1 * var * length)", "milp-objective-coeff"))
A(M("c02-sign", "C02", C, "terms.append(-1 * var * length * order)", "terms.append(1 * var * length * order)", "milp-objective-coeff"))
A(M("c02-level0-test", "C02", C, "                if order == 0:\n                    terms.append(var * length)", "                if order <= 1:\n                    terms.append(var * length)", "milp-objective-coeff"))
A(M("c02-bound", "C02", C, "max_order = max(map(len, graph.values())) + 1", "max_order = max(map(len, graph.values()))", "milp-bound"))
A(M("c02-continuous", "C02", C, "pulp.LpVariable(f\"x_{i}_{j}\", 0, 1, pulp.LpInteger)", "pulp.LpVariable(f\"x_{i}_{j}\", 0, 1, pulp.LpContinuous)", "milp-binary"))
A(M("c02-one-level-le", "C02", C, "problem += pulp.lpSum(region_vars) == 1", "problem += pulp.lpSum(region_vars) <= 1", "milp-one-level"))
A(M("c02-adj-2", "C02", C, "                        <= 1\n", "                        <= 2\n", "milp-adjacency"))
A(M("c02-adj-levels", "C02", C, "                for order in range(max_order):\n                    problem += (", "                for order in range(1, max_order):\n                    problem += (", "milp-adjacency"))
A(M("c02-minimize", "C02", C, "pulp.LpMaximize", "pulp.LpMinimize", "milp-sense"))
A(M("c02-name-swap", "C02", C, "pulp.LpVariable(f\"x_{i}_{j}\"", "pulp.LpVariable(f\"x_{j}_{i}\"", ["milp-name-format", "milp-readback"]))
A(M("c02-readback-swap", "C02", C, "                orders[i] = order\n\n        return self.__make_dot_bracket(regions, orders)\n\n    def __make", "                orders[order] = i\n\n        return self.__make_dot_bracket(regions, orders)\n\n    def __make", "milp-readback"))
A(M("c02-length-first", "C02", C, "length = region_by_var[var][2]", "length = region_by_var[var][0]", "milp-objective-coeff"))
A(M("c02-graph-oneway", ["C02", "C16"], C, "                graph[i].add(j)\n                graph[j].add(i)\n\n        # return all", "                graph[i].add(j)\n\n        # return all", "conflict-graph"))
A(M("c02-pairs-short", "C02", C, "for i, j in itertools.combinations(range(len(regions)), 2):\n            ri, rj = regions[i], regions[j]\n            k, l, _ = ri\n            m, n, _ = rj\n\n            # is pseudoknot?\n            if (k < m < l < n) or (m < k < n < l):\n                graph[i].add(j)\n                graph[j].add(i)\n\n        # return all", "for i, j in itertools.combinations(range(len(regions) - 1), 2):\n            ri, rj = regions[i], regions[j]\n            k, l, _ = ri\n            m, n, _ = rj\n\n            # is pseudoknot?\n            if (k < m < l < n) or (m < k < n < l):\n                graph[i].add(j)\n                graph[j].add(i)\n\n        # return all", "conflict-pairs"))
A(M("c02-bound-silent", "C02", C, "max_order = max(map(len, graph.values())) + 1", "max_order = max(map(len, graph.values())) + 2", kind="silent"))
A(M("c02-binary-silent", "C02", C, "pulp.LpVariable(f\"x_{i}_{j}\", 0, 1, pulp.LpInteger)", "pulp.LpVariable(f\"x_{i}_{j}\", cat=pulp.LpBinary)", kind="silent"))

# ---------------------------------------------------------------- C16
A(M("c16-greedy-range", ["C16", "C01"], C, "                    for j in range(i):\n                        if permutation[j] in graph[permutation[i]]:", "                    for j in range(i - 1):\n                        if permutation[j] in graph[permutation[i]]:", "greedy-earlier"))
A(M("c16-available-small", "C16", C, "available = [True for _ in range(len(component))]", "available = [True for _ in range(len(component) - 1)]", "greedy-available"))
A(M("c16-perm-k", "C16", C, "itertools.permutations(component)", "itertools.permutations(component, 2)", "greedy-perms"))
A(M("c16-perm-identity", "C16", C, "itertools.permutations(component)", "[tuple(component)]", "greedy-perms"))
A(M("c16-zip", "C16", C, "itertools.product(*unique)", "zip(*unique)", "product"))
A(M("c16-pop-early", ["C16", "C01"], C, "                    if next_vertex is not None:\n                        visited[next_vertex] = True\n                        stack.append(next_vertex)\n                        components[-1].append(next_vertex)\n                    else:\n                        stack.pop()\n", "                    stack.pop()\n                    if next_vertex is not None:\n                        visited[next_vertex] = True\n                        stack.append(next_vertex)\n                        components[-1].append(next_vertex)\n", "components-walk"))
A(M("c16-default-missing", "C16", C, "orders = {region: 0 for region in range(len(regions))}", "orders = {}", "product-default"))
A(M("c16-early-exit", "C16", C, "            return [self.fcfs]\n", "            return []\n", "early-exit"))
A(M("c16-mark-wrong", "C16", C, "available[orders[permutation[j]]] = False", "available[orders[permutation[i]]] = False", "greedy-mark"))
A(M("c16-bfs-silent", ["C16", "C01"], C, "                while stack:\n                    current = stack[-1]\n                    next_vertex = None\n\n                    for neighbor in graph[current]:\n                        if not visited[neighbor]:\n                            next_vertex = neighbor\n                            break\n\n                    if next_vertex is not None:\n                        visited[next_vertex] = True\n                        stack.append(next_vertex)\n                        components[-1].append(next_vertex)\n                    else:\n                        stack.pop()\n", "                while stack:\n                    current = stack.pop()\n                    for neighbor in graph[current]:\n                        if not visited[neighbor]:\n                            visited[neighbor] = True\n                            stack.append(neighbor)\n                            components[-1].append(neighbor)\n", kind="silent"))

# ---------------------------------------------------------------- C12
A(M("c12-shallow-copy", "C12", C, "        entries = [\n            Entry(entry.index_, entry.sequence, entry.pair) for entry in self.entries\n        ]\n", "        entries = self.entries.copy()\n", "receiver-write"))
A(M("c12-list-copy", "C12", C, "        entries = [\n            Entry(entry.index_, entry.sequence, entry.pair) for entry in self.entries\n        ]\n", "        entries = list(self.entries)\n", "receiver-write"))
A(M("c12-pairs-clear", "C12", C, "    def without_pseudoknots(self):\n        return BpSeq.from_dotbracket", "    def without_pseudoknots(self):\n        self.pairs.clear()\n        return BpSeq.from_dotbracket", "receiver-write"))
A(M("c12-sort-entries", "C12", C, "        stems = []\n        entries: List[Entry] = []\n", "        stems = []\n        self.entries.sort()\n        entries: List[Entry] = []\n", "receiver-write"))
A(M("c12-regex-class", "C12", C, 'r"[\\[\\]\\{\\}\\<\\>A-Za-z]"', 'r"[\\[\\]\\{\\}A-Za-z]"', "pk-class"))
A(M("c12-isolated-3p", "C12", C, "to_unpair.append(stem.strand3p.first - 1)", "to_unpair.append(stem.strand3p.first)", "isolated-select"))
A(M("c12-isolated-guard", "C12", C, "            if stem.strand5p.first == stem.strand5p.last:\n                to_unpair", "            if stem.strand5p.first <= stem.strand5p.last:\n                to_unpair", "isolated-select"))
A(M("c12-stem-mutate-via-elements", "C12", C, "        stems, _, _, _ = self.elements\n        to_unpair = []\n", "        stems, _, _, _ = self.elements\n        stems.reverse()\n        to_unpair = []\n", "receiver-write"))
A(M("c12-deepcopy-silent", "C12", C, "import itertools\n", "import copy\nimport itertools\n", kind="silent", edits=[("import itertools\n", "import copy\nimport itertools\n"), ("        entries = [\n            Entry(entry.index_, entry.sequence, entry.pair) for entry in self.entries\n        ]\n", "        entries = copy.deepcopy(self.entries)\n")]))

# ---------------------------------------------------------------- C14
T3 = "tertiary.py"
AN = "annotator.py"
A(M("c14-set-solutions", "C14", C, "        solutions = {}\n", "        solutions = set()\n", "order-taint", edits=[("        solutions = {}\n", "        solutions = set()\n"), ("            solutions[self.__make_dot_bracket(regions, orders)] = None\n", "            solutions.add(self.__make_dot_bracket(regions, orders))\n")]))
A(M("c14-iter-set-bp", "C14", T3, "        for base_pair in self.base_pairs2d:\n", "        for base_pair in set(self.base_pairs2d):\n", "order-taint"))
A(M("c14-key-not-total", "C14", T3, "", "", None, edits=[("                    return 0, pair.nt1, pair.nt2\n                else:\n                    return 1, pair.nt1, pair.nt2\n", "                    return 0\n                else:\n                    return 1\n")], count=2, kind="silent"))  # since fix d067541 (ordered lists + stable sort) a rank-only key is deterministic: C14 holds
A(M("c14-labels-set", "C14", AN, "    counter = Counter(labels)\n", "    counter = Counter(labels)\n    labels = list(set(labels))\n", "order-taint"))
A(M("c14-unsorted-links", "C14", "molecule_filter.py", 'for link in sorted(links["entity"])', 'for link in links["entity"]', "order-taint"))
A(M("c14-random", "C14", AN, "import math\n", "import math\nimport random\n", "nondeterministic-value", edits=[("import math\n", "import math\nimport random\n"), ("    base_pairs = []\n    for residue_i, residue_j, lw in sorted(base_base_pairs):", "    random.shuffle(base_base_pairs)\n    base_pairs = []\n    for residue_i, residue_j, lw in sorted(base_base_pairs):")]))
A(M("c14-sorted-silent", "C14", T3, "        for base_pair in self.base_pairs2d:\n", "        for base_pair in sorted(set(self.base_pairs2d)):\n", kind="silent"))

A(M("c02-single-expr-silent", "C02", C, "                if order == 0:\n                    terms.append(var * length)\n                else:\n                    terms.append(-1 * var * length * order)\n", "                terms.append(var * length * (1 if order == 0 else -order))\n", kind="silent"))
A(M("c02-single-expr-bad", "C02", C, "                if order == 0:\n                    terms.append(var * length)\n                else:\n                    terms.append(-1 * var * length * order)\n", "                terms.append(var * length * (1 - order))\n", "milp-objective-coeff"))

# ---------------------------------------------------------------- C03
TT = "tertiary.py"
A(M("c03-radius", "C03", AN, "HYDROGEN_BOND_MAX_DISTANCE = 4.0", "HYDROGEN_BOND_MAX_DISTANCE = 3.6", "contact-radius"))
A(M("c03-window", "C03", AN, "HYDROGEN_BOND_ANGLE_RANGE = (50.0, 130.0)", "HYDROGEN_BOND_ANGLE_RANGE = (40.0, 140.0)", "angle-window"))
A(M("c03-min-contacts-3", "C03", AN, "if hydrogen_bond_count < 2:", "if hydrogen_bond_count < 3:", "select-min-contacts"))
A(M("c03-min-contacts-1", "C03", AN, "if hydrogen_bond_count < 2:", "if hydrogen_bond_count < 1:", "select-min-contacts"))
A(M("c03-cis-60", "C03", AN, "    return \"c\" if -90.0 < torsion < 90.0 else \"t\"", "    return \"c\" if -60.0 < torsion < 90.0 else \"t\"", "cis-trans"))
A(M("c03-cis-nodegrees", "C03", AN, "torsion = math.degrees(torsion_angle(c1p_i, n9n1_i, n9n1_j, c1p_j))", "torsion = torsion_angle(c1p_i, n9n1_i, n9n1_j, c1p_j)", "cis-trans"))
A(M("c03-edge-entry", "C03", TT, '        "N1": "W",\n        "C2": "WS",\n        "N3": "S",\n        "N6": "WH",', '        "N1": "H",\n        "C2": "WS",\n        "N3": "S",\n        "N6": "WH",', "table-pinned"))
A(M("c03-drop-occupied-add", "C03", AN, "        occupied.add((residue_j, edge_j))\n", "", "edge-exclusive"))
A(M("c03-occupied-wrong-key", "C03", AN, "        if (residue_j, edge_j) in occupied:", "        if (residue_j, edge_i) in occupied:", "edge-exclusive"))
A(M("c03-extra-filter", "C03", AN, "        residue_i, residue_j, cis_trans, edge_i, edge_j = interaction\n", "        residue_i, residue_j, cis_trans, edge_i, edge_j = interaction\n        if cis_trans == \"t\" and edge_i == \"S\" and edge_j == \"S\":\n            continue\n", "select-extra-filter"))
A(M("c03-angle2-copy", "C03", AN, "            angle_between_vectors(residue_j.base_normal_vector, vector)", "            angle_between_vectors(residue_i.base_normal_vector, vector)", "angle-operands"))
A(M("c03-orient-else", "C03", AN, "labels.append((residue_j, residue_i, cis_trans, edge_j, edge_i))", "labels.append((residue_j, residue_i, cis_trans, edge_i, edge_j))", "label-orientation"))
A(M("c03-drop-same-type", "C03", AN, "        if type_i == type_j:\n            continue\n", "", "contact-skips"))
A(M("c03-angle-only-one", "C03", AN, "            HYDROGEN_BOND_ANGLE_RANGE[0] < angle1 < HYDROGEN_BOND_ANGLE_RANGE[1]\n            and HYDROGEN_BOND_ANGLE_RANGE[0] < angle2 < HYDROGEN_BOND_ANGLE_RANGE[1]\n", "            HYDROGEN_BOND_ANGLE_RANGE[0] < angle1 < HYDROGEN_BOND_ANGLE_RANGE[1]\n            and HYDROGEN_BOND_ANGLE_RANGE[0] < angle2\n", "angle-window"))
A(M("c03-normal-atoms", "C03", TT, '            n7 = self.find_atom("N7")\n            n3 = self.find_atom("N3")', '            n7 = self.find_atom("N7")\n            n3 = self.find_atom("N1")', "base-normal"))
A(M("c03-cis-purine-set", "C03", AN, "    if residue_i.one_letter_name in \"AG\":\n        n9n1_i = residue_i.find_atom(\"N9\")", "    if residue_i.one_letter_name in \"AGU\":\n        n9n1_i = residue_i.find_atom(\"N9\")", "cis-trans-atoms"))
A(M("c03-cis-wrong-residue", "C03", AN, "    c1p_j = residue_j.find_atom(\"C1'\")", "    c1p_j = residue_i.find_atom(\"C1'\")", "cis-trans-atoms"))
A(M("c03-cis-order", "C03", AN, "torsion_angle(c1p_i, n9n1_i, n9n1_j, c1p_j)", "torsion_angle(c1p_i, n9n1_j, n9n1_i, c1p_j)", "cis-trans-atoms"))
A(M("c03-claim-early", "C03", AN, "        if (residue_i, edge_i) in occupied:\n            continue\n        if (residue_j, edge_j) in occupied:\n            continue\n\n        occupied.add((residue_i, edge_i))\n", "        if (residue_i, edge_i) in occupied:\n            continue\n        occupied.add((residue_i, edge_i))\n        if (residue_j, edge_j) in occupied:\n            continue\n\n", "edge-exclusive"))
A(M("c03-occupied-or-silent", "C03", AN, "        if (residue_i, edge_i) in occupied:\n            continue\n        if (residue_j, edge_j) in occupied:\n            continue\n", "        if (residue_i, edge_i) in occupied or (residue_j, edge_j) in occupied:\n            continue\n", kind="silent"))
A(M("c03-orient-unguarded", "C03", AN, "        if residue_i < residue_j:\n            for edge_i in edges_i:\n                for edge_j in edges_j:\n                    labels.append((residue_i, residue_j, cis_trans, edge_i, edge_j))\n        else:\n            for edge_i in edges_i:\n                for edge_j in edges_j:\n                    labels.append((residue_j, residue_i, cis_trans, edge_j, edge_i))\n", "        for edge_i in edges_i:\n            for edge_j in edges_j:\n                labels.append((residue_i, residue_j, cis_trans, edge_i, edge_j))\n", "label-orientation"))
A(M("c05-number-or", "C05", C, "        if self.auth is not None:\n            return self.auth.number\n        if self.label is not None:\n            return self.label.number\n        return None", "        number = self.auth.number if self.auth is not None else None\n        return number or (self.label.number if self.label is not None else None)", "identity-truthiness"))
A(M("c05-normal-lru", "C05", TT, "    @cached_property\n    def base_normal_vector(self)", "    @property\n    @functools.lru_cache(maxsize=None)\n    def base_normal_vector(self)", "memo-key"))
A(M("c05-same-residue-partial", ["C05", "C03"], AN, "            atom_i.label is not None\n            and atom_i.label is not None\n            and atom_i.label == atom_j.label", "            atom_i.label is not None\n            and atom_i.label is not None\n            and atom_i.label.chain == atom_j.label.chain\n            and atom_i.label.number == atom_j.label.number", None))
A(M("c06-lw-reverse-noswap", ["C06"], C, 'LeontisWesthof[f"{self.name[0]}{self.name[2]}{self.name[1]}"]', 'LeontisWesthof[f"{self.name[0]}{self.name[1]}{self.name[2]}"]', "lw-reverse"))
A(M("c06-lift-no-record", ["C06"], TT, "                if bp.reverse not in used:\n                    result.append(bp.reverse)\n                    used.add(bp.reverse)\n", "                if bp.reverse not in used:\n                    result.append(bp.reverse)\n", "lifting-guarded-insert"))
A(M("c06-lift-loop-silent", ["C06"], TT, "                if bp not in used:\n                    result.append(bp)\n                    used.add(bp)\n                if bp.reverse not in used:\n                    result.append(bp.reverse)\n                    used.add(bp.reverse)\n", "                for cand in (bp, bp.reverse):\n                    if cand not in used:\n                        result.append(cand)\n                        used.add(cand)\n", kind="silent"))
A(M("c06-gap-direction", ["C06"], TT, "                if (\n                    not previous.is_connected(residue)\n                    and previous.chain == residue.chain\n                ):\n                    for k in range", "                if (\n                    not residue.is_connected(previous)\n                    and previous.chain == residue.chain\n                ):\n                    for k in range", ["gap-rule-agree", "numbering-fact"]))
A(M("c08-lazy-filter", "C08", "parser.py", "        model: list(filter(lambda atom: atom.model == model, atoms))\n", "        model: filter(lambda atom: atom.model == model, atoms)\n", "late-binding"))
A(M("c08-tree-filtered", "C08", "parser.py", "    coords = np.array([(atom.x, atom.y, atom.z) for atom in unique_atoms_list])", "    known = [atom for atom in unique_atoms_list if atom.occupancy is not None]\n    coords = np.array([(atom.x, atom.y, atom.z) for atom in known])", "kdtree-index-space"))
A(M("c08-dup-kept-none-loses", "C08", "parser.py", "                unique_atoms[key].occupancy is None\n                or atom.occupancy > unique_atoms[key].occupancy", "                unique_atoms[key].occupancy is not None\n                and atom.occupancy > unique_atoms[key].occupancy", ["occupancy-wins", "optional-occupancy"]))  # round 6: decided on the atoms returned
A(M("c08-dup-lower-wins", "C08", "parser.py", "                or atom.occupancy > unique_atoms[key].occupancy", "                or atom.occupancy < unique_atoms[key].occupancy", "occupancy-wins"))
A(M("c08-clash-alias-silent", "C08", "parser.py", "        if unique_atoms_list[i].model != unique_atoms_list[j].model:\n            continue", "        a, b = unique_atoms_list[i], unique_atoms_list[j]\n        if a.model != b.model:\n            continue", kind="silent"))
A(M("c08-clash-drop-higher", "C08", "parser.py", "            atoms_to_keep.discard(j)\n        else:\n            atoms_to_keep.discard(i)", "            atoms_to_keep.discard(i)\n        else:\n            atoms_to_keep.discard(j)", "clash-loser"))
A(M("c03-inline-const-silent", "C03", AN, "kdtree.query_pairs(HYDROGEN_BOND_MAX_DISTANCE)", "kdtree.query_pairs(4.0)", kind="silent"))
A(M("c03-window-split-silent", "C03", AN, "        if (\n            HYDROGEN_BOND_ANGLE_RANGE[0] < angle1 < HYDROGEN_BOND_ANGLE_RANGE[1]\n            and HYDROGEN_BOND_ANGLE_RANGE[0] < angle2 < HYDROGEN_BOND_ANGLE_RANGE[1]\n        ):", "        lo, hi = HYDROGEN_BOND_ANGLE_RANGE\n        if (lo <= angle1 <= hi) and not (angle2 < lo or angle2 > hi):", kind="silent"))

# ---------------------------------------------------------------- C04
A(M("c04-radius", "C04", AN, "STACKING_MAX_DISTANCE = 6.0", "STACKING_MAX_DISTANCE = 5.5", "stack-radius"))
A(M("c04-normals-35", "C04", AN, "STACKING_MAX_ANGLE_BETWEEN_NORMALS = 35.0", "STACKING_MAX_ANGLE_BETWEEN_NORMALS = 30.0", "stack-normals"))
A(M("c04-offset-45", "C04", AN, "STACKING_MAX_ANGLE_BETWEEN_VECTOR_AND_NORMAL = 45.0", "STACKING_MAX_ANGLE_BETWEEN_VECTOR_AND_NORMAL = 40.0", "stack-offset"))
A(M("c04-min-max-1", "C04", AN, "        angle = min(\n            [\n                angle_between_vectors(normal_i, normal_j),", "        angle = max(\n            [\n                angle_between_vectors(normal_i, normal_j),", "stack-normals"))
A(M("c04-min-max-2", "C04", AN, "        angle = min(\n            angle_between_vectors(vector, normal_i),", "        angle = max(\n            angle_between_vectors(vector, normal_i),", "stack-offset"))
A(M("c04-no-degrees", "C04", AN, "if math.degrees(angle) > STACKING_MAX_ANGLE_BETWEEN_NORMALS:", "if angle > STACKING_MAX_ANGLE_BETWEEN_NORMALS:", "stack-normals"))
A(M("c04-dot-sign", "C04", AN, "numpy.dot(normal_i, normal_j) > 0.0", "numpy.dot(normal_i, normal_j) < 0.0", ["stack-direction", "stack-labels"]))
A(M("c04-label-group", "C04", AN, '                pairs.append((residue_i, residue_j, "inward"))', '                pairs.append((residue_i, residue_j, "downward"))', "stack-labels"))
A(M("c04-else-order", "C04", AN, '                pairs.append((residue_j, residue_i, "outward"))', '                pairs.append((residue_i, residue_j, "outward"))', "stack-labels"))
A(M("c04-unsorted", "C04", AN, "for residue_i, residue_j, topology in sorted(pairs):", "for residue_i, residue_j, topology in pairs:", "stack-emission"))
A(M("c04-centroid-den", "C04", AN, "sum(ys) / len(ys)", "sum(ys) / len(base_atoms)", "centroid-mean"))
A(M("c04-vector-axis", "C04", AN, "for k in (0, 1, 2)])", "for k in (0, 1)])", "stack-offset-vector"))
A(M("c04-normal-j-twice", "C04", AN, "            angle_between_vectors(vector, normal_i),\n            angle_between_vectors(vector, normal_j),", "            angle_between_vectors(vector, normal_j),\n            angle_between_vectors(vector, normal_j),", ["stack-offset", "stack-extra-filter"]))
A(M("c04-ifexp-silent", "C04", AN, '        if residue_i < residue_j:\n            if same_direction:\n                pairs.append((residue_i, residue_j, "upward"))\n            else:\n                pairs.append((residue_i, residue_j, "inward"))\n        else:\n            if same_direction:\n                pairs.append((residue_j, residue_i, "downward"))\n            else:\n                pairs.append((residue_j, residue_i, "outward"))\n', '        if residue_i < residue_j:\n            pairs.append((residue_i, residue_j, "upward" if same_direction else "inward"))\n        else:\n            pairs.append((residue_j, residue_i, "downward" if same_direction else "outward"))\n', kind="silent"))

# ---------------------------------------------------------------- C11
A(M("c11-unsorted-bp", "C11", AN, "for residue_i, residue_j, lw in sorted(base_base_pairs):", "for residue_i, residue_j, lw in base_base_pairs:", "sorted-emission"))
A(M("c11-unsorted-bph", "C11", AN, "bph_map = merge_and_clean_bph_br(sorted(base_phosphate_pairs))", "bph_map = merge_and_clean_bph_br(base_phosphate_pairs)", "sorted-emission"))
A(M("c11-drop-same-auth", ["C11", "C03"], AN, "        if (\n            atom_i.auth is not None\n            and atom_i.auth is not None\n            and atom_i.auth == atom_j.auth\n        ):\n            continue\n", "", "contact-skips"))
A(M("c11-saenger-asym", "C11", C, '            ("AG", "tWS"): "X",', '            ("AG", "tWS"): "XI",', "saenger-symmetric"))
A(M("c11-saenger-value", "C11", C, '            ("GG", "tSS"): "IV",', '            ("GG", "tSS"): "IIII",', "saenger-values"))
A(M("c11-truncation", "C11", AN, "        if len(bphs_brs) > 1:\n            bph_br_map[key] = OrderedSet([bphs_brs[0]])\n", "        pass\n", ["bph-one-class", "bph-merge"]))
A(M("c11-merge-rule", "C11", AN, "        if 7 in bphs_brs and 9 in bphs_brs:\n            bphs_brs.remove(7)\n            bphs_brs.remove(9)\n            bphs_brs.add(8)\n", "        if 7 in bphs_brs and 9 in bphs_brs:\n            bphs_brs.remove(7)\n            bphs_brs.add(8)\n", "bph-merge"))
A(M("c11-class-branch", "C11", AN, '        if donor.name == "C5":\n            return 9\n        if donor.name == "C6":\n            return 0\n\n    if donor_residue.one_letter_name == "U":', '        if donor.name == "C6":\n            return 0\n\n    if donor_residue.one_letter_name == "U":', "bph-class-table"))
A(M("c11-class-value", "C11", AN, '        if donor.name == "N1":\n            return 5\n', '        if donor.name == "N1":\n            return 4\n', "bph-class-table"))
A(M("c11-roles-swapped", "C11", AN, "            if type_i == \"donor\":\n                donor_residue, acceptor_residue = residue_i, residue_j\n                donor_atom, acceptor_atom = atom_i, atom_j\n            else:\n                donor_residue, acceptor_residue = residue_j, residue_i\n                donor_atom, acceptor_atom = atom_j, atom_i\n            bph =", "            if type_i == \"donor\":\n                donor_residue, acceptor_residue = residue_j, residue_i\n                donor_atom, acceptor_atom = atom_i, atom_j\n            else:\n                donor_residue, acceptor_residue = residue_j, residue_i\n                donor_atom, acceptor_atom = atom_j, atom_i\n            bph =", "bph-roles"))
A(M("c11-fields-swapped", "C11", AN, "return BaseInteractions(base_pairs, stackings, base_ribose, base_phosphate, [])", "return BaseInteractions(base_pairs, stackings, base_phosphate, base_ribose, [])", "result-order"))
A(M("c11-lw-reverse", "C11", C, 'return LeontisWesthof[f"{self.name[0]}{self.name[2]}{self.name[1]}"]', 'return LeontisWesthof[f"{self.name[0]}{self.name[1]}{self.name[2]}"]', "lw-reverse"))
A(M("c11-split-60", "C11", AN, "                return 1 if -90.0 < torsion < 90.0 else 3", "                return 1 if -60.0 < torsion < 60.0 else 3", "bph-split"))
A(M("c11-saenger-key-order", "C11", AN, 'key = (f"{residue_i.one_letter_name}{residue_j.one_letter_name}", lw.value)', 'key = (f"{residue_j.one_letter_name}{residue_i.one_letter_name}", lw.value)', "saenger-lookup"))

# ---------------------------------------------------------------- C05
A(M("c05-point-for-vector", "C05", AN, "        vector = atom_i.coordinates - atom_j.coordinates\n", "        vector = atom_i.coordinates\n", "invariance-typing"))
A(M("c05-z-filter", "C05", AN, "        # check for base-base contacts\n", "        if atom_i.z > 0:\n            continue\n        # check for base-base contacts\n", "invariance-typing"))
A(M("c05-sort-coordinates", "C05", AN, "    kdtree = KDTree(coordinates)\n\n    # find all hydrogen bonds", "    coordinates = sorted(coordinates)\n    kdtree = KDTree(coordinates)\n\n    # find all hydrogen bonds", "invariance-typing"))
A(M("c05-positional-atom", "C05", TT, '            n9 = self.find_atom("N9")\n            n7 = self.find_atom("N7")', '            n9 = self.atoms[0]\n            n7 = self.find_atom("N7")', "positional-atom"))
A(M("c05-number-arith", "C05", AN, "        if residue_i < residue_j:\n            for edge_i in edges_i:", "        if abs(residue_i.number - residue_j.number) > 10000:\n            continue\n        if residue_i < residue_j:\n            for edge_i in edges_i:", "identity-arithmetic"))
A(M("c05-gap-unguarded", "C05", TT, "                if self.find_gaps:\n                    if not previous.is_connected(residue):", "                if True:\n                    if not previous.is_connected(residue):", "identity-arithmetic"))
A(M("c05-centroid-abs", "C05", AN, "        vector = numpy.array([coordinates[i][k] - coordinates[j][k] for k in (0, 1, 2)])", "        vector = numpy.array([coordinates[i][k] for k in (0, 1, 2)])", "invariance-typing"))
A(M("c05-normal-unnormalised-silent", "C05", TT, "        return normal / numpy.linalg.norm(normal)", "        length = numpy.linalg.norm(normal)\n        return normal / length", kind="silent"))
A(M("c05-lt-label", "C05", TT, "        return (self.model, self.chain, self.number, self.icode or \" \") < (\n            other.model,\n            other.chain,\n            other.number,\n            other.icode or \" \",\n        )", "        return (self.model, self.chain, self.number) < (\n            other.model,\n            other.chain,\n            other.number,\n        )", "identity-order"))

# ---------------------------------------------------------------- C07
A(M("c07-window-open", "C07", C, "candidate = self.entries[stops[i - 1] : stops[i] + 1]", "candidate = self.entries[stops[i - 1] : stops[i]]", ["index-discipline", "elements-windows"]))
A(M("c07-stop-base", "C07", C, "stopset.add(stem.strand5p.last - 1)", "stopset.add(stem.strand5p.last)", ["index-discipline", "elements-stops"]))
A(M("c07-link-base", "C07", C, "if self.entries[i_last - 1].pair == j_first:", "if self.entries[i_last].pair == j_first:", ["index-discipline", "elements-links"]))
A(M("c07-strand-last", "C07", C, "last = first + len(entries) - 1", "last = first + len(entries)", ["index-discipline", "strand-span"]))
A(M("c07-strand-slice", "C07", C, "structure = dotbracket[first - 1 : last]", "structure = dotbracket[first : last]", ["index-discipline", "strand-structure"]))
A(M("c07-interior", "C07", C, "for entry in candidate[1:-1]]", "for entry in candidate[1:]]", ["elements-windows", "elements-windows-fact"]))
A(M("c07-tail5", "C07", C, "self.entries[: stops[0] + 1],", "self.entries[: stops[0]],", ["index-discipline", "elements-tail5"]))
A(M("c07-closure", "C07", C, "if self.entries[loop[0].first - 1].pair == loop[-1].last:", "if self.entries[loop[0].first].pair == loop[-1].last:", ["index-discipline", "elements-closure"]))
A(M("c07-hairpin-test", "C07", C, "if candidate[0].pair == candidate[-1].index_:", "if candidate[0].pair == candidate[-1].pair:", ["elements-windows", "elements-windows-fact"]))
A(M("c07-fcfs-structure", "C07", C, "                stem_entries, self.entries, self.dot_bracket.structure\n", "                stem_entries, self.entries, self.fcfs.structure\n", "elements-dotbracket"))
A(M("c07-loop-sorted", "C07", C, "loops.append(Loop(loop))", "loops.append(Loop(sorted(loop, key=lambda strand: strand.first)))", ["elements-closure", "elements-closure-fact"]))
A(M("c07-stem-coords", "C07", TT, "idx3p = stem.strand3p.last - i", "idx3p = stem.strand3p.first - i", "index-discipline"))
A(M("c07-range-strand", "C07", TT, "for index_ in range(strand.first, strand.last + 1):", "for index_ in range(strand.first, strand.last):", "index-discipline"))
# fact-level rules of checks/c07e.py: the same breakages on top of the stored refactor C07-r2 (zip windows, stopset.update loop, hoisted names)
B7 = dict(base="C07-r2")
A(M("c07e-r2-window-open", "C07", C, "candidate = self.entries[begin : end + 1]", "candidate = self.entries[begin:end]", ["index-discipline", "elements-windows-fact"], **B7))
A(M("c07e-r2-zip-skip", "C07", C, "zip(stops, stops[1:])", "zip(stops, stops[2:])", "elements-windows-fact", **B7))
A(M("c07e-r2-stop-base", "C07", C, "stopset.update((strand.first - 1, strand.last - 1))", "stopset.update((strand.first - 1, strand.last))", ["index-discipline", "elements-stops-fact"], **B7))
A(M("c07e-r2-stop-missing", "C07", C, "for strand in (stem.strand5p, stem.strand3p):", "for strand in (stem.strand5p,):", "elements-stops-fact", **B7))
A(M("c07e-r2-interior-span", "C07", C, "any(strand.last - strand.first > 1 for strand in loop)", "any(strand.last - strand.first > 0 for strand in loop)", "elements-closure-fact", **B7))
A(M("c07e-r2-interior-slice", "C07", C, "interior = candidate[1:-1]", "interior = candidate[1:]", "elements-windows-fact", **B7))
A(M("c07e-r2-link-base", "C07", C, "if self.entries[i_last - 1].pair == j_first:", "if self.entries[i_last].pair == j_first:", ["index-discipline", "elements-links-fact"], **B7))
A(M("c07e-r2-link-one-way", "C07", C, "                if self.entries[j_last - 1].pair == i_first:\n                    graph[j].add(i)\n", "", "elements-links-fact", **B7))
A(M("c07e-r2-link-swapped", "C07", C, "if self.entries[j_last - 1].pair == i_first:\n                    graph[j].add(i)", "if self.entries[j_last - 1].pair == i_first:\n                    graph[i].add(j)", "elements-links-fact", **B7))
A(M("c07e-r2-hairpin-swap", "C07", C, "                if candidate[0].pair == candidate[-1].index_:\n                    hairpins.append(", "                if candidate[0].pair != candidate[-1].index_:\n                    hairpins.append(", "elements-windows-fact", **B7))
A(M("c07e-r2-closure-first", "C07", C, "if self.entries[loop[0].first - 1].pair == loop[-1].last:", "if self.entries[loop[0].first - 1].pair == loop[-1].first:", "elements-closure-fact", **B7))
A(M("c07e-r2-prelude", "C07", C, "        if not self.__stems_entries:\n            return [], [], [], []\n", "        if not self.__stems_entries or len(self.entries) < 4:\n            return [], [], [], []\n", "elements-prelude-fact", **B7))
A(M("c07e-tail5-guard", "C07", C, "if stops[0] > 0:", "if stops[0] > 1:", ["elements-tails-fact", "elements-tail5"]))
A(M("c07e-tail3-guard", "C07", C, "if stops[-1] < len(self.entries) - 1:", "if stops[-1] < len(self.entries) - 2:", ["elements-tails-fact", "elements-tail3"]))
A(M("c07e-tail3-slice", "C07", C, "self.entries[stops[-1] :], self.dot_bracket.structure", "self.entries[stops[-1] + 1 :], self.dot_bracket.structure", ["elements-tails-fact", "elements-tail3"]))
A(M("c07e-leftover-all", "C07", C, "            if loop_candidate not in used:\n                single_strands.append(SingleStrand(loop_candidate, False, False))", "            single_strands.append(SingleStrand(loop_candidate, False, False))", ["elements-tails-fact", "elements-leftover"]))
A(M("c07e-tail5-ge1-silent", "C07", C, "if stops[0] > 0:", "if stops[0] >= 1:", kind="silent"))
A(M("c07e-tail3-flip-silent", "C07", C, "if stops[-1] < len(self.entries) - 1:", "if len(self.entries) > stops[-1] + 1:", kind="silent"))
A(M("c07e-pairwise-silent", "C07", C, "for i in range(1, len(stops)):\n            candidate = self.entries[stops[i - 1] : stops[i] + 1]", "for i in range(len(stops) - 1):\n            candidate = self.entries[stops[i] : stops[i + 1] + 1]", kind="silent"))
A(M("c07e-links-full-silent", "C07", C, "            for j in range(i + 1, len(loop_candidates)):\n                i_first, i_last = loop_candidates[i].first, loop_candidates[i].last\n                j_first, j_last = loop_candidates[j].first, loop_candidates[j].last\n                if self.entries[i_last - 1].pair == j_first:\n                    graph[i].add(j)\n                if self.entries[j_last - 1].pair == i_first:\n                    graph[j].add(i)\n", "            for j in range(len(loop_candidates)):\n                if i != j and self.entries[loop_candidates[i].last - 1].pair == loop_candidates[j].first:\n                    graph[i].add(j)\n", kind="silent"))
A(M("c07e-hairpin-entries-silent", "C07", C, "if candidate[0].pair == candidate[-1].index_:", "if self.entries[stops[i - 1]].pair == stops[i] + 1:", kind="silent"))
A(M("c07e-not-any-silent", "C07", C, "if all([entry.pair == 0 for entry in candidate[1:-1]]):", "if not any(entry.pair != 0 for entry in candidate[1:-1]):", kind="silent"))
# walk / constructors / CLI (round 3): on the clean tree and on top of the stored refactors C07-r3 (index of candidates by .first, list-based walk) and C07-r4 (constructors rewritten)
B73 = dict(base="C07-r3")
B74 = dict(base="C07-r4")
A(M("c07e-walk-no-move", "C07", C, "                        loop.append(loop_candidates[j])\n                        i = j\n", "                        loop.append(loop_candidates[j])\n", ["elements-walk-fact", "elements-walk"]))
A(M("c07e-walk-no-loop-test", "C07", C, "                        loop_candidates[j] not in used\n                        and loop_candidates[j] not in loop\n", "                        loop_candidates[j] not in used\n", ["elements-walk-fact", "elements-walk"]))
A(M("c07e-walk-append-start", "C07", C, "                        loop.append(loop_candidates[j])\n", "                        loop.append(loop_candidates[i])\n", ["elements-walk-fact", "elements-walk"]))
A(M("c07e-r3-walk-last", "C07", C, "current = following[0]", "current = following[-1]", "elements-walk-fact", **B73))
A(M("c07e-r3-walk-used-only", "C07", C, "if loop_candidates[j] not in used and loop_candidates[j] not in loop", "if loop_candidates[j] not in used", "elements-walk-fact", **B73))
A(M("c07e-r3-index-last", "C07", C, "by_first[strand.first].append(i)", "by_first[strand.last].append(i)", "elements-links-fact", **B73))
A(M("c07e-r3-partner-first", "C07", C, "partner = self.entries[strand.last - 1].pair", "partner = self.entries[strand.first - 1].pair", "elements-links-fact", **B73))
A(M("c07e-r3-partner-base", "C07", C, "partner = self.entries[strand.last - 1].pair", "partner = self.entries[strand.last].pair", ["index-discipline", "elements-links-fact"], **B73))
A(M("c07e-r3-leftover-all", "C07", C, "            for loop_candidate in loop_candidates\n            if loop_candidate not in used\n", "            for loop_candidate in loop_candidates\n", "elements-tails-fact", **B73))
A(M("c07e-r4-strand-end", "C07", C, "end = begin + len(entries) - 1", "end = begin + len(entries)", ["strand-eval", "index-discipline"], **B74))
A(M("c07e-r4-strand-slice", "C07", C, "dotbracket[begin - 1 : end]", "dotbracket[begin:end]", ["strand-eval", "index-discipline"], **B74))
A(M("c07e-r4-stem-3p-filter", "C07", C, "strand3p_entries = [entry for entry in all_entries if entry.index_ in partners]", "strand3p_entries = [entry for entry in all_entries if entry.pair in partners]", "stem-eval", **B74))
A(M("c07e-r4-stem-swap", "C07", C, "return Stem(strand5p, strand3p)", "return Stem(strand3p, strand5p)", "stem-eval", **B74))
A(M("c07e-strand-seq-reversed", "C07", C, "for entry in (entries if not reverse else reversed(entries))", "for entry in (entries if reverse else reversed(entries))", ["strand-eval", "strand-sequence"]))
A(M("c07e-cli-print-first", "C07", "motif_extractor.py", "    if args.remove_isolated:\n        bpseq = bpseq.without_isolated()\n\n    if args.remove_pseudoknots:\n        bpseq = bpseq.without_pseudoknots()\n\n    print(f\"Full dot-bracket:\\n{bpseq.dot_bracket}\")\n", "    print(f\"Full dot-bracket:\\n{bpseq.dot_bracket}\")\n    if args.remove_isolated:\n        bpseq = bpseq.without_isolated()\n\n    if args.remove_pseudoknots:\n        bpseq = bpseq.without_pseudoknots()\n\n", "cli-same-structure"))
A(M("c07e-cli-filtered-name", "C07", "motif_extractor.py", "    if args.remove_pseudoknots:\n        bpseq = bpseq.without_pseudoknots()\n", "    shown = bpseq\n    if args.remove_pseudoknots:\n        bpseq = bpseq.without_pseudoknots()\n    shown = shown\n", kind="silent"))
A(M("c07e-cli-print-last-silent", "C07", "motif_extractor.py", "    print(f\"Full dot-bracket:\\n{bpseq.dot_bracket}\")\n    stems, single_strands, hairpins, loops = bpseq.elements\n", "    stems, single_strands, hairpins, loops = bpseq.elements\n    print(f\"Full dot-bracket:\\n{bpseq.dot_bracket}\")\n", kind="silent"))
A(M("c07e-walk-next-silent", "C07", C, "                for j in graph[i]:\n                    if (\n                        loop_candidates[j] not in used\n                        and loop_candidates[j] not in loop\n                    ):\n                        loop.append(loop_candidates[j])\n                        i = j\n                        break\n                else:\n                    break\n", "                j = next((k for k in graph[i] if loop_candidates[k] not in loop and loop_candidates[k] not in used), None)\n                if j is None:\n                    break\n                i = j\n                loop.append(loop_candidates[i])\n", kind="silent"))
# round 4: carried-selection walk on top of C07-r5, identity-equality
B75 = dict(base="C07-r5")
A(M("c07e-r5-walk-restart", "C07", C, "successor = next(filter(is_free, graph[successor]), None)", "successor = next(filter(is_free, graph[i]), None)", "elements-walk-fact", **B75))
A(M("c07e-r5-free-used-only", "C07", C, "return loop_candidates[j] not in used and loop_candidates[j] not in loop", "return loop_candidates[j] not in used", "elements-walk-fact", **B75))
A(M("c07e-r5-append-start", "C07", C, "loop.append(loop_candidates[successor])", "loop.append(loop_candidates[i])", "elements-walk-fact", **B75))
A(M("c07e-r5-combinations-one-way", "C07", C, "            if self.entries[strand_j.last - 1].pair == strand_i.first:\n                graph[j].add(i)\n", "", "elements-links-fact", **B75))
A(M("c07e-r5-any-interior-eq", "C07", C, "if any(entry.pair != 0 for entry in candidate[1:-1]):", "if any(entry.pair != 0 for entry in candidate[1:]):", "elements-windows-fact", **B75))
A(M("c07e-r5-lambda-silent", "C07", C, "successor = next(filter(is_free, graph[successor]), None)", "successor = next(filter(lambda k: loop_candidates[k] not in loop and loop_candidates[k] not in used, graph[successor]), None)", kind="silent", **B75))
A(M("ident-strand-span", "C07", C, "class Strand:\n    first: int\n    last: int\n", "class Strand:\n    first: int = field(compare=False)\n    last: int = field(compare=False)\n", "identity-equality", edits=[("from dataclasses import dataclass\n", "from dataclasses import dataclass, field\n"), ("class Strand:\n    first: int\n    last: int\n", "class Strand:\n    first: int = field(compare=False)\n    last: int = field(compare=False)\n")]))
A(M("ident-strand-text-silent", "C07", C, None, None, kind="silent", edits=[("from dataclasses import dataclass\n", "from dataclasses import dataclass, field\n"), ("    sequence: str\n    structure: str\n\n    @staticmethod\n    def from_bpseq_entries(\n        entries: List[Entry], dotbracket: str, reverse: bool = False", "    sequence: str = field(compare=False)\n    structure: str = field(compare=False)\n\n    @staticmethod\n    def from_bpseq_entries(\n        entries: List[Entry], dotbracket: str, reverse: bool = False")]))
A(M("ident-auth-name", ["C08", "C05"], C, "class ResidueAuth:\n    chain: str\n    number: int\n    icode: Optional[str]\n    name: str\n", "class ResidueAuth:\n    chain: str\n    number: int\n    icode: Optional[str]\n    name: str = field(compare=False)\n", "identity-equality", edits=[("from dataclasses import dataclass\n", "from dataclasses import dataclass, field\n"), ("class ResidueAuth:\n    chain: str\n    number: int\n    icode: Optional[str]\n    name: str\n", "class ResidueAuth:\n    chain: str\n    number: int\n    icode: Optional[str]\n    name: str = field(compare=False)\n")]))
A(M("ident-residue3d-payload-silent", ["C03", "C04", "C08"], "tertiary.py", "    def __hash__(self):\n        return hash((self.model, self.label, self.auth))\n", "    def __eq__(self, other):\n        if not isinstance(other, Residue3D):\n            return NotImplemented\n        return (self.model, self.label, self.auth) == (other.model, other.label, other.auth)\n\n    def __hash__(self):\n        return hash((self.model, self.label, self.auth))\n", kind="silent"))
A(M("ident-residue3d-no-label", ["C03", "C17"], "tertiary.py", "    def __hash__(self):\n        return hash((self.model, self.label, self.auth))\n", "    def __eq__(self, other):\n        if not isinstance(other, Residue3D):\n            return NotImplemented\n        return (self.model, self.auth) == (other.model, other.auth)\n\n    def __hash__(self):\n        return hash((self.model, self.auth))\n", "identity-equality"))
# round 5: the decomposition evaluated on every small structure (checks/c07v.py), on the clean tree and on the helper-extraction refactor C07-r6
B76 = dict(base="C07-r6")
A(M("c07v-loop-sorted-post-init", "C07", C, "    strands: List[Strand]\n\n    def __post_init__(self):\n        self.description = str(self)\n", "    strands: List[Strand]\n\n    def __post_init__(self):\n        self.strands = sorted(self.strands, key=lambda strand: strand.first)\n        self.description = str(self)\n", "elements-eval-loops"))
A(M("c07v-r6-proper-loop-span", "C07", C, "return any(strand.last - strand.first > 1 for strand in loop)", "return any(strand.last - strand.first > 2 for strand in loop)", ["elements-eval-coverage", "elements-eval-loops", "elements-closure-fact"], **B76))
A(M("c07v-r6-successor-first", "C07", C, "partner = self.entries[strand.last - 1].pair", "partner = self.entries[strand.first - 1].pair", ["elements-eval-coverage", "elements-eval-loops", "elements-links-fact"], **B76))
A(M("c07v-r6-early-return-3", "C07", C, "if len(loop_candidates) < 2:", "if len(loop_candidates) < 3:", ["elements-eval-coverage", "elements-eval-loops"], **B76))
A(M("c07v-r6-walk-returns-start", "C07", C, "            else:\n                return loop\n", "            else:\n                return loop[:1]\n", ["elements-eval-coverage", "elements-eval-loops"], **B76))
A(M("c07v-r6-leftover-dropped", "C07", C, "            if loop_candidate not in used\n        )\n\n        return stems, single_strands, hairpins, loops", "            if loop_candidate not in used and loop_candidate.last - loop_candidate.first > 1\n        )\n\n        return stems, single_strands, hairpins, loops", ["elements-eval-coverage", "elements-tails-fact"], **B76))
A(M("c07v-r6-size-cap", "C07", C, "if len(loop_candidates) < 2:", "if len(loop_candidates) < 2 or len(self.entries) > 400:", ["elements-links-fact", "elements-eval-coverage"], kind="fire", **B76))
A(M("c07v-single-linker", "C07", C, "            if loop_candidate not in used:\n                single_strands.append(SingleStrand(loop_candidate, False, False))", "            if loop_candidate not in used and loop_candidate.last - loop_candidate.first >= 3:\n                single_strands.append(SingleStrand(loop_candidate, False, False))", ["elements-eval-coverage", "elements-tails-fact"]))
# round 6: the walk kept as candidate numbers (C07-r8): marks and leftover test must agree on numbers/values; one-way equality tolerated
B78 = dict(base="C07-r8")
A(M("c07e-r8-marks-strands", "C07", C, "                used.update(chain)\n", "                used.update(loop)\n", ["elements-closure-fact", "elements-eval-coverage"], **B78))
A(M("c07e-r8-leftover-strands", "C07", C, "            if i not in used:\n                single_strands.append(SingleStrand(loop_candidate, False, False))", "            if loop_candidate not in used:\n                single_strands.append(SingleStrand(loop_candidate, False, False))", ["elements-closure-fact", "elements-eval-coverage"], **B78))
A(M("c07e-r8-marks-other-set", "C07", C, "                used.update(chain)\n", "                visited.update(chain)\n", ["elements-closure-fact", "elements-eval-coverage", "elements-eval-loops"], **B78))
A(M("c07e-r8-successor-self", "C07", C, "                if j is not None and j != i:\n", "                if j is not None and j != i and strand.last - strand.first < 40:\n", None, kind="unrecognised", **B78))  # a threshold: the evaluation abstains (one-way condition with a constant), the successor-dict idiom is not read by the links rule: exit 2
A(M("c07e-r8-union-silent", "C07", C, "                used.update(chain)\n", "                used |= set(chain)\n", kind="silent", **B78))
A(M("c07e-r8-add-loop-silent", "C07", C, "                used.update(chain)\n", "                for number in chain:\n                    used.add(number)\n", kind="silent", **B78))
A(M("c07e-r8-no-self-test-silent", "C07", C, "                if j is not None and j != i:\n", "                if j is not None:\n", kind="silent", **B78))
A(M("c07e-union-silent", "C07", C, "                    used.update(loop)\n", "                    used |= set(loop)\n", kind="silent"))
# round 6: cross-cutting rule diagnostic-purity (sa/diag.py): what is evaluated for a log message leaves everything else alone
A(M("diag-pop-in-debug", "C05", "annotator.py", "f\"Checking pair {residue_i.full_name} {atom_i.name} - {residue_j.full_name} {atom_j.name}\"", "f\"Checking pair {residue_i.full_name} {atom_i.name} - {residue_j.full_name} {atom_j.name} after {used_atoms.pop() if used_atoms else None}\"", "diagnostic-purity"))
A(M("diag-row-pop", "C08", "parser.py", "f\"Cannot parse an atom line without chain name, residue number, and residue name: {row}\"", "f\"Cannot parse an atom line without chain name, residue number, and residue name: {row.pop()}\"", "diagnostic-purity"))
A(M("diag-helper-out", "C18", "tertiary_v2.py", None, None, "diagnostic-purity", edits=[("        df = df[ordered_columns]\n\n        return df\n", "        df = df[ordered_columns]\n        if logger.isEnabledFor(logging.DEBUG):\n            values = df[\"chi\"].to_numpy()\n            np.degrees(values, out=values)\n            logger.debug(\"chi from %s to %s\", values.min(), values.max())\n\n        return df\n"), ("import numpy as np\n", "import logging\n\nimport numpy as np\n\nlogger = logging.getLogger(__name__)\n")]))
A(M("diag-helper-copy-silent", ["C18", "C15"], "tertiary_v2.py", None, None, kind="silent", edits=[("        df = df[ordered_columns]\n\n        return df\n", "        df = df[ordered_columns]\n        if logger.isEnabledFor(logging.DEBUG):\n            values = np.degrees(df[\"chi\"].to_numpy(dtype=float))\n            defined = values[~np.isnan(values)]\n            shown = []\n            shown.append(len(defined))\n            logger.debug(\"chi defined for %s of %d\", shown, len(values))\n\n        return df\n"), ("import numpy as np\n", "import logging\n\nimport numpy as np\n\nlogger = logging.getLogger(__name__)\n")]))
A(M("diag-sorted-silent", ["C05", "C03"], "annotator.py", "f\"Checking pair {residue_i.full_name} {atom_i.name} - {residue_j.full_name} {atom_j.name}\"", "f\"Checking pair {residue_i.full_name} {atom_i.name} - {residue_j.full_name} {atom_j.name} after {len(used_atoms)} used atoms, e.g. {sorted(a.name for a in used_atoms)[:3]}\"", kind="silent"))
A(M("diag-defaultdict-read", "C07", C, "        used = set()\n\n        for i in range(len(loop_candidates)):", "        logging.debug(f\"first candidate has {len(graph[0])} successors\")\n        used = set()\n\n        for i in range(len(loop_candidates)):", "diagnostic-purity"))
A(M("diag-defaultdict-own-keys-silent", "C07", C, "        used = set()\n\n        for i in range(len(loop_candidates)):", "        logging.debug(f\"successors: {[len(graph[k]) for k in graph]}, first: {len(graph[0]) if 0 in graph else 0}, {len(graph.get(0, ()))}\")\n        used = set()\n\n        for i in range(len(loop_candidates)):", kind="silent"))
# round 7: helpers extracted from the linking and the walk (C07-r10), stem runs by break positions with a nested predicate (C07-r11)
B710, B711 = dict(base="C07-r10"), dict(base="C07-r11")
A(M("c07-r10-link-first", "C07", C, "            if self.entries[strand_i.last - 1].pair == strand_j.first:\n                successors[i].add(j)\n", "            if self.entries[strand_i.first - 1].pair == strand_j.first:\n                successors[i].add(j)\n", ["elements-eval-loops", "elements-eval-coverage", "elements-links-fact"], **B710))
A(M("c07-r10-link-offset", "C07", C, "            if self.entries[strand_j.last - 1].pair == strand_i.first:\n", "            if self.entries[strand_j.last].pair == strand_i.first:\n", ["index-discipline", "elements-eval-loops", "elements-eval-coverage"], **B710))
A(M("c07-r10-chain-only-silent", "C07", C, "                if strands[j] not in used and strands[j] not in chain\n", "                if not (strands[j] in used or strands[j] in chain)\n", kind="silent", **B710))
A(M("c07-r11-stacked-plus", ["C01", "C07"], C, "            return i == k + 1 and j == l - 1\n", "            return i == k + 1 and j == l + 1\n", ["stems-run-fact", "elements-eval-stems", "stems-run"], **B711))
A(M("c07-r11-begins-from-one", ["C01", "C07"], C, "        begins = [0] + [\n            n for n in range(1, len(paired)) if not stacked(paired[n - 1], paired[n])\n        ]", "        begins = [0] + [\n            n for n in range(2, len(paired)) if not stacked(paired[n - 1], paired[n])\n        ]", ["stems-run-fact", "elements-eval-stems", "stems-run"], **B711))
A(M("c07-r11-keyword-call-silent", ["C01", "C07"], C, "n for n in range(1, len(paired)) if not stacked(paired[n - 1], paired[n])", "n for n in range(1, len(paired)) if not stacked(previous=paired[n - 1], entry=paired[n])", kind="silent", **B711))
# C05 contact-visit-order (F23)
A(M("c05-visit-order-unsorted", "C05", "annotator.py", "for i, j in sorted(kdtree.query_pairs(HYDROGEN_BOND_MAX_DISTANCE)):", "for i, j in kdtree.query_pairs(HYDROGEN_BOND_MAX_DISTANCE):", "contact-visit-order"))
A(M("c05-visit-order-list", "C05", "annotator.py", "for i, j in sorted(kdtree.query_pairs(HYDROGEN_BOND_MAX_DISTANCE)):", "for i, j in list(kdtree.query_pairs(HYDROGEN_BOND_MAX_DISTANCE)):", "contact-visit-order"))
A(M("c05-visit-order-stackings-silent", ["C05", "C04"], "annotator.py", "for i, j in kdtree.query_pairs(STACKING_MAX_DISTANCE):", "for i, j in sorted(kdtree.query_pairs(STACKING_MAX_DISTANCE)):", kind="silent"))
# memo-key-state (sa/memo.py)
A(M("memo-atom-compare-false", "C18", "tertiary.py", "    x: float\n    y: float\n    z: float\n    occupancy: Optional[float]\n\n    @cached_property\n    def coordinates", "    x: float = field(compare=False)\n    y: float = field(compare=False)\n    z: float = field(compare=False)\n    occupancy: Optional[float] = field(compare=False)\n\n    @cached_property\n    def coordinates", kind="silent"))
A(M("memo-torsion-cache-only-silent", ["C18", "C03"], "tertiary.py", "def torsion_angle(a1: Atom, a2: Atom, a3: Atom, a4: Atom) -> float:", "@__import__('functools').lru_cache(maxsize=None)\ndef torsion_angle(a1: Atom, a2: Atom, a3: Atom, a4: Atom) -> float:", kind="silent"))
A(M("memo-torsion-cache-and-compare", ["C18"], "tertiary.py", None, None, "memo-key-state", edits=[("    x: float\n    y: float\n    z: float\n    occupancy: Optional[float]\n\n    @cached_property\n    def coordinates", "    x: float = field(compare=False)\n    y: float = field(compare=False)\n    z: float = field(compare=False)\n    occupancy: Optional[float] = field(compare=False)\n\n    @cached_property\n    def coordinates"), ("def torsion_angle(a1: Atom, a2: Atom, a3: Atom, a4: Atom) -> float:", "@__import__('functools').lru_cache(maxsize=None)\ndef torsion_angle(a1: Atom, a2: Atom, a3: Atom, a4: Atom) -> float:")]))
A(M("c07-unpaired-test-silent", "C07", C, "if all([entry.pair == 0 for entry in candidate[1:-1]]):", "if all(entry.pair == 0 for entry in candidate[1:-1]):", kind="silent"))

# ---------------------------------------------------------------- round 3: fact-level rules of checks/c03e.py, c04e.py, c11e.py, c05.py
# the same kinds of breakage on top of the stored round-3 refactors (symbolic paths must decide rewritten code too) + silent twins
B33, B34 = dict(base="C03-r3"), dict(base="C03-r4")
A(M("c03e-r3-orient-edges", ["C03", "C11"], AN, "edge_first, edge_second = (edge_i, edge_j) if in_order else (edge_j, edge_i)", "edge_first, edge_second = (edge_i, edge_j) if in_order else (edge_i, edge_j)", "label-orientation", **B33))
A(M("c03e-r3-product-swapped", "C03", AN, "itertools.product(edges_i, edges_j)", "itertools.product(edges_j, edges_i)", "label-orientation", **B33))
A(M("c03e-r3-break-occupied", "C03", AN, "        if not occupied.isdisjoint(wanted):\n            continue\n", "        if not occupied.isdisjoint(wanted):\n            break\n", "select-extra-filter", **B33))
A(M("c03e-r3-update-one", "C03", AN, "        occupied.update(wanted)\n", "        occupied.add((residue_i, edge_i))\n", "edge-exclusive", **B33))
A(M("c03e-r3-wanted-mixed", "C03", AN, "wanted = {(residue_i, edge_i), (residue_j, edge_j)}", "wanted = {(residue_i, edge_j), (residue_j, edge_i)}", "edge-exclusive", **B33))
A(M("c03e-r3-min3", "C03", AN, "        if hydrogen_bond_count < 2:\n            # most_common()", "        if hydrogen_bond_count < 3:\n            # most_common()", "select-min-contacts", **B33))
A(M("c03e-r3-lw-swapped", "C03", AN, 'LeontisWesthof[f"{cis_trans}{edge_i}{edge_j}"])\n        )', 'LeontisWesthof[f"{cis_trans}{edge_j}{edge_i}"])\n        )', "select-class", **B33))
A(M("c03e-r3-intersection-silent", "C03", AN, "        if not occupied.isdisjoint(wanted):\n", "        if occupied & wanted:\n", kind="silent", **B33))
A(M("c03e-r3-le1-silent", "C03", AN, "        if hydrogen_bond_count < 2:\n            # most_common()", "        if hydrogen_bond_count <= 1:\n            # most_common()", kind="silent", **B33))
A(M("c03e-break-count-silent", "C03", AN, "        if hydrogen_bond_count < 2:\n            continue\n", "        if hydrogen_bond_count < 2:\n            break\n", kind="silent"))
A(M("c03e-break-occupied", "C03", AN, "        if (residue_j, edge_j) in occupied:\n            continue\n", "        if (residue_j, edge_j) in occupied:\n            break\n", "select-extra-filter"))
A(M("c03e-r4-site-swap", ["C03", "C11"], AN, "atom_j, type_j, residue_j = sites[coordinates[j]]", "atom_j, type_j, residue_j = sites[coordinates[i]]", ["contact-skips", "contact-extra-filter"], **B34))
A(M("c03e-r4-site-order", ["C03", "C05"], AN, "atom_i, type_i, residue_i = sites[coordinates[i]]", "type_i, atom_i, residue_i = sites[coordinates[i]]", ["contact-skips", "contact-extra-filter"], **B34))
A(M("c03e-r4-typing-donor-first", "C03", AN, '"acceptor" if atom_name in acceptors else "donor",', '"donor" if atom_name in donors else "acceptor",', "contact-typing", **B34))
A(M("c03e-r4-abs-60", ["C03", "C18"], AN, "    if abs(torsion) < 90.0:", "    if abs(torsion) < 60.0:", "cis-trans", **B34))
A(M("c03e-r4-purine-name", "C03", AN, 'nitrogen_name = "N9" if residue.one_letter_name in "AG" else "N1"', 'nitrogen_name = "N9" if residue.one_letter_name in "AGU" else "N1"', "cis-trans-atoms", **B34))
A(M("c03e-r4-any-drop-atom", "C03", AN, "for atom in (c1p_i, c1p_j, n9n1_i, n9n1_j)", "for atom in (c1p_i, c1p_j, n9n1_i)", None, kind="silent", **B34))
A(M("c03e-r4-normal-tip", ["C03", "C04"], TT, 'atom_names = ("N9", "N7", "N3")', 'atom_names = ("N9", "N7", "N1")', "base-normal", **B34))
A(M("c03e-r4-normal-origin", ["C03", "C04"], TT, "tip2.coordinates - origin.coordinates,\n", "tip2.coordinates - tip1.coordinates,\n", "base-normal", **B34))
A(M("c03e-r4-guard-is-none-silent", ["C03", "C05", "C11"], AN, "            if not atom:\n                continue\n", "            if atom is None:\n                continue\n", kind="silent", **B34))
A(M("c03e-normal-missing-fallback", ["C03", "C04"], TT, "            if n1 is None or c4 is None or o2 is None:\n                return None\n", "            if n1 is None or c4 is None or o2 is None:\n                return numpy.array([0.0, 0.0, 1.0])\n", "base-normal"))
A(M("c03e-contact-extra-filter", ["C03", "C11"], AN, "        # check for base-base contacts\n        if residue_i.base_normal_vector is None", "        if atom_i.occupancy is not None and atom_i.occupancy < 0.5:\n            continue\n        # check for base-base contacts\n        if residue_i.base_normal_vector is None", "contact-extra-filter"))
A(M("c03e-model-filter-negated", ["C03", "C11"], AN, "        if model is not None and residue.model != model:\n            continue\n        acceptors = (", "        if model is not None and residue.model == model:\n            continue\n        acceptors = (", "model-filter"))
A(M("c03e-model-filter-silent", ["C03", "C11"], AN, "        if model is not None and residue.model != model:\n            continue\n        acceptors = (", "        if not (model is None or residue.model == model):\n            continue\n        acceptors = (", kind="silent"))
A(M("c03e-duplicate-point", "C03", AN, "        for atom_name in dict.fromkeys(acceptors + donors):", "        for atom_name in acceptors + donors:", ["contact-distinct-points", "contact-atoms"]))
A(M("c03e-r3-drop-noedge-skip", ["C03", "C11"], AN, "        if edges_i is None or edges_j is None:\n            continue\n", "        if edges_i is None:\n            continue\n", "label-skips", **B33))
A(M("c03e-r3-edges-wrong-atom", ["C03", "C11"], AN, "edges_j = BASE_EDGES.get(residue_j.one_letter_name, {}).get(atom_j.name)", "edges_j = BASE_EDGES.get(residue_j.one_letter_name, {}).get(atom_i.name)", "label-edges", **B33))
A(M("c03e-r4-hb-record-swapped", "C03", AN, "hydrogen_bonds.append((atom_i, atom_j, residue_i, residue_j))", "hydrogen_bonds.append((atom_j, atom_i, residue_i, residue_j))", ["label-edges", "angle-record"], **B34))
A(M("c03e-r4-drop-donors", ["C03", "C05"], AN, "        for atom_name in dict.fromkeys(acceptors + donors):", "        for atom_name in dict.fromkeys(acceptors):", "contact-atoms", **B34))
A(M("c03e-r3-select-top", "C03", AN, "Counter(labels).most_common():", "Counter(labels).most_common(100):", "select-source", **B33))
A(M("c04e-r3-drop-none-skip", "C04", AN, "        if normal_i is None or normal_j is None:\n            continue\n", "        if normal_i is None:\n            continue\n", "stack-skips", **dict(base="C04-r3")))
A(M("c04e-r4-register-other-key", "C04", AN, "        coordinates_residue_map[geometric_center] = residue\n", "        coordinates_residue_map[tuple(geometric_center[:2])] = residue\n", None, kind="unrecognised", **dict(base="C04-r4")))
B113, B114, B144 = dict(base="C11-r3"), dict(base="C11-r4"), dict(base="C14-r4")
A(M("c11e-r4-priority", "C11", AN, '                ("base-phosphate", PHOSPHATE_ACCEPTORS, base_phosphate_pairs),\n                ("base-ribose", RIBOSE_ACCEPTORS, base_ribose_pairs),\n', '                ("base-ribose", RIBOSE_ACCEPTORS, base_ribose_pairs),\n                ("base-phosphate", PHOSPHATE_ACCEPTORS, base_phosphate_pairs),\n', "bph-branch", **B114))
A(M("c11e-r4-no-break", "C11", AN, "                    contact = (kind, collected)\n                    break\n", "                    contact = (kind, collected)\n", "bph-branch", **B114))
A(M("c11e-r4-update-one", "C11", AN, "used_atoms.update((atom_i, atom_j))", "used_atoms.add(atom_i)", "bph-record", **B114))
A(M("c11e-r4-roles", "C11", AN, "                donor_residue, donor_atom = residue_j, atom_j\n                acceptor_residue, acceptor_atom = residue_i, atom_i\n", "                donor_residue, donor_atom = residue_j, atom_i\n                acceptor_residue, acceptor_atom = residue_i, atom_j\n", "bph-roles", **B114))
A(M("c11e-r4-list-literal-silent", ["C11", "C03", "C05"], AN, "used_atoms.update((atom_i, atom_j))", "used_atoms.update([atom_j, atom_i])", kind="silent", **B114))
A(M("c11e-r14-elif-to-if", "C11", AN, "            elif atom_i.name in RIBOSE_ACCEPTORS or atom_j.name in RIBOSE_ACCEPTORS:", "            if atom_i.name in RIBOSE_ACCEPTORS or atom_j.name in RIBOSE_ACCEPTORS:", "bph-branch", **B144))
A(M("c11e-r14-no-continue", ["C11", "C03"], AN, "                contacts.append((donor_residue, acceptor_residue, bph_br))\n            continue\n", "                contacts.append((donor_residue, acceptor_residue, bph_br))\n", "bph-branch", **B144))
A(M("c11e-r14-demorgan-silent", ["C11", "C03", "C05"], AN, "        if atom_i not in used_atoms and atom_j not in used_atoms:\n            if atom_i.name in PHOSPHATE_ACCEPTORS", "        if not (atom_i in used_atoms or atom_j in used_atoms):\n            if atom_i.name in PHOSPHATE_ACCEPTORS", kind="silent", **B144))
A(M("c11e-r3-table-value", ["C11", "C18"], AN, '    "G": {"N1": 5, "C8": 0},', '    "G": {"N1": 4, "C8": 0},', "bph-class-table", **B113))
A(M("c11e-r3-table-missing", "C11", AN, '    "U": {"N3": 5, "C5": 9, "C6": 0},', '    "U": {"N3": 5, "C6": 0},', "bph-class-table", **B113))
A(M("c11e-r3-amino-swap", "C11", AN, '    "G": {"N2": ("N3", "C2", 1, 3)},', '    "G": {"N2": ("N3", "C2", 3, 1)},', "bph-split", **B113))
A(M("c11e-r3-amino-ring", "C11", AN, '    "A": {"N6": ("N1", "C6", 6, 7)},', '    "A": {"N6": ("N7", "C6", 6, 7)},', "bph-split-atoms", **B113))
A(M("c11e-r3-class0-truthy", "C11", AN, "    if classification is not None:\n        return classification\n", "    if classification:\n        return classification\n", "bph-class-table", **B113))
A(M("c11e-r3-saenger-swapped", "C11", AN, "sequence = residue_i.one_letter_name + residue_j.one_letter_name", "sequence = residue_j.one_letter_name + residue_i.one_letter_name", "saenger-lookup", **B113))
A(M("c11e-r3-saenger-unguarded", "C11", AN, "    return Saenger[name] if name is not None else None\n", "    return Saenger[name]\n", "saenger-lookup", **B113))
A(M("c11e-r3-saenger-flip-silent", "C11", AN, "    return Saenger[name] if name is not None else None\n", "    return None if name is None else Saenger[name]\n", kind="silent", **B113))
A(M("c11e-result-order-swapped", "C11", AN, "    return base_pairs, base_phosphates, base_riboses\n", "    return base_pairs, base_riboses, base_phosphates\n", "result-order"))
A(M("c11e-order-drop-icode", ["C11", "C05"], TT, '        return (self.model, self.chain, self.number, self.icode or " ") < (\n            other.model,\n            other.chain,\n            other.number,\n            other.icode or " ",\n        )', "        return (self.model, self.chain, self.number) < (\n            other.model,\n            other.chain,\n            other.number,\n        )", ["order-keys", "identity-order"]))
A(M("c11e-order-derived-twin", ["C11", "C05"], C, '        return (self.chain, self.number, self.icode or " ") < (\n            other.chain,\n            other.number,\n            other.icode or " ",\n        )', '        return (self.chain.upper(), self.number, self.icode or " ") < (\n            other.chain.upper(),\n            other.number,\n            other.icode or " ",\n        )', ["order-keys", "identity-order"]))
A(M("c11e-order-mirrored-silent", ["C11", "C05"], TT, '        return (self.model, self.chain, self.number, self.icode or " ") < (\n            other.model,\n            other.chain,\n            other.number,\n            other.icode or " ",\n        )', '        return (other.model, other.chain, other.number, other.icode or " ") > (\n            self.model,\n            self.chain,\n            self.number,\n            self.icode or " ",\n        )', kind="silent"))
B43, B44 = dict(base="C04-r3"), dict(base="C04-r4")
A(M("c04e-r3-zip-same", ["C04"], AN, "zip(center_i, center_j)", "zip(center_i, center_i)", "stack-offset-vector", **B43))
A(M("c04e-r3-zip-reversed", ["C05", "C04"], AN, "zip(center_i, center_j)", "zip(center_i, reversed(center_j))", ["invariance-typing", "stack-offset-vector"], **B43))
A(M("c04e-r3-helper-max", "C04", AN, "return not math.degrees(min(angles)) > limit_in_degrees", "return not math.degrees(max(angles)) > limit_in_degrees", ["stack-normals", "stack-offset"], **B43))
A(M("c04e-r3-topology", "C04", AN, 'topology = "downward" if same_direction else "outward"', 'topology = "outward" if same_direction else "downward"', "stack-labels", **B43))
A(M("c04e-r3-first-second", "C04", AN, "            first, second = residue_j, residue_i\n", "            first, second = residue_i, residue_j\n", "stack-labels", **B43))
A(M("c04e-r3-dot-flipped-silent", ["C04", "C05"], AN, "same_direction = numpy.dot(normal_i, normal_j) > 0.0", "same_direction = 0.0 < numpy.dot(normal_j, normal_i)", kind="silent", **B43))
A(M("c04e-r3-le-silent", "C04", AN, "return not math.degrees(min(angles)) > limit_in_degrees", "return math.degrees(min(angles)) <= limit_in_degrees", kind="silent", **B43))
A(M("c04e-r4-model-filter", ["C04", "C11"], AN, "        if model is None or residue.model == model\n", "        if model is None or residue.model != model\n", "model-filter", **B44))
A(M("c04e-r4-count-all", "C04", AN, "    count = len(atoms)\n", "    count = len(BASE_ATOMS.get(residue.one_letter_name, []))\n", "centroid-mean", **B44))
A(M("c04e-r4-normal-names", ["C04", "C03"], TT, 'atom_names = ("N9", "N7", "N3") if is_purine else ("N1", "C4", "O2")', 'atom_names = ("N9", "N7", "N3") if is_purine else ("N1", "C4", "O4")', "base-normal", **B44))
A(M("c04e-same-residue-full-silent", ["C04", "C05"], AN, "        # check angle between normals\n        normal_i = residue_i.base_normal_vector", "        if (residue_i.chain, residue_i.number, residue_i.icode) == (residue_j.chain, residue_j.number, residue_j.icode):\n            continue\n        # check angle between normals\n        normal_i = residue_i.base_normal_vector", kind="silent"))
A(M("c04e-extra-filter-number", "C04", AN, "        # check angle between normals\n        normal_i = residue_i.base_normal_vector", "        if residue_i.one_letter_name == residue_j.one_letter_name == \"U\":\n            continue\n        # check angle between normals\n        normal_i = residue_i.base_normal_vector", "stack-extra-filter"))
A(M("c05-derived-positional", "C05", TT, "        o3p = self.find_atom(\"O3'\")\n        p = next_residue_candidate.find_atom(\"P\")", "        backbone = [atom for atom in self.atoms if atom.name in (\"O3'\", \"O2'\")]\n        o3p = backbone[0] if backbone else None\n        p = next_residue_candidate.find_atom(\"P\")", "positional-atom"))
A(M("c05-same-name-first-silent", "C05", TT, "        o3p = self.find_atom(\"O3'\")\n        p = next_residue_candidate.find_atom(\"P\")", "        named = [atom for atom in self.atoms if atom.name == \"O3'\"]\n        o3p = named[0] if named else None\n        p = next_residue_candidate.find_atom(\"P\")", kind="silent"))
A(M("c05-gap-repetition-silent", "C05", TT, "                        for k in range(residue.number - previous.number - 1):\n                            result[-1][1].append(\"?\")\n", "                        result[-1][1].extend(\"?\" * (residue.number - previous.number - 1))\n", kind="silent"))
A(M("c05-gap-no-minus-one", "C05", TT, "                        for k in range(residue.number - previous.number - 1):\n                            result[-1][1].append(\"?\")\n", "                        for k in range(residue.number - previous.number):\n                            result[-1][1].append(\"?\")\n", "identity-arithmetic"))
A(M("c05-gap-other-chain", "C05", TT, "                if (\n                    not previous.is_connected(residue)\n                    and previous.chain == residue.chain\n                ):", "                if not previous.is_connected(residue):", "identity-arithmetic"))

# ---------------------------------------------------------------- C08
PA = "parser.py"
A(M("c08-key-no-model", "C08", PA, "key = (atom.model, atom.label, atom.auth, atom.name)", "key = (atom.label, atom.auth, atom.name)", "identity-key-model"))
A(M("c08-occupancy-dir", "C08", PA, "                or atom.occupancy > unique_atoms[key].occupancy", "                or atom.occupancy < unique_atoms[key].occupancy", "occupancy-wins"))
A(M("c08-column", "C08", PA, "residue_number = int(line[22:26].strip())", "residue_number = int(line[23:27].strip())", "pdb-columns"))
A(M("c08-one-marker", "C08", PA, 'if insertion_code in ("?", "."):', 'if insertion_code == "?":', "null-markers"))
A(M("c08-clash-distance", "C08", PA, "clash_distance: float = 0.5", "clash_distance: float = 0.05", "clash-distance"))
A(M("c08-clash-loser", "C08", PA, "            atoms_to_keep.discard(j)\n        else:\n            atoms_to_keep.discard(i)", "            atoms_to_keep.discard(i)\n        else:\n            atoms_to_keep.discard(j)", "clash-loser"))
A(M("c08-clash-cross-model", "C08", PA, "        if unique_atoms_list[i].model != unique_atoms_list[j].model:\n            continue\n", "", "clash-same-model"))
A(M("c08-model-default", "C08", PA, "atoms = atoms_by_model[list(available_models.keys())[0]]", "atoms = atoms_by_model[list(available_models.keys())[-1]]", "model-selection"))
A(M("c08-group-key", "C08", PA, "        key = (atom.label, atom.auth, atom.model)", "        key = (atom.label, atom.auth)", ["identity-key-model", "group-runs"]))  # evaluated: the 2-tuple never equals the 3-tuple key_previous and key_previous[2] raises
A(M("c08-none-guard", "C08", PA, "            atom.occupancy is not None\n            and (\n                unique_atoms[key].occupancy is None\n                or atom.occupancy > unique_atoms[key].occupancy\n            )", "            atom.occupancy > unique_atoms[key].occupancy", "optional-occupancy"))
A(M("c08-isdigit", "C08", PA, "    try:\n        return int(s)\n    except (ValueError, TypeError):\n        # TypeError: the item is absent from the file (None), e.g. no auth_seq_id\n        return None", "    if s is None or not s.isdigit():\n        return None\n    return int(s)", "int-parsing"))
A(M("c08-flush", "C08", PA, "    residues.append(\n        Residue3D(label, auth, model, one_letter_name, tuple(residue_atoms))\n    )\n\n    if nucleic_acid_only:", "    if nucleic_acid_only:", "group-runs"))
A(M("c08-model-col", "C08", PA, "model = int(line[10:14].strip())", "model = int(line[6:10].strip())", "pdb-columns"))
# round 3 (worker W3): evaluated / fact rules of C08, C09, C10, C15 on refactored bases
from mutants_r3_w3 import E as _R3_W3  # noqa: E402

MUTANTS.extend(_R3_W3)
# round 4 (worker W3): generators, format detection, shared memo results, write paths of the CLI tools, pandas stand-in evaluation
from mutants_r4_w3 import E as _R4_W3  # noqa: E402

MUTANTS.extend(_R4_W3)
# round 5 (worker W3): row order under any index (F24), writer aliases, handles read before, whole-function readers, fit test on tables
from mutants_r5_w3 import E as _R5_W3  # noqa: E402

MUTANTS.extend(_R5_W3)
# round 6 (worker W3): filter_clashing_atoms by value, falsy-but-valid values, effects of log arguments, helper-built dictionaries / tables
from mutants_r6_w3 import E as _R6_W3  # noqa: E402

MUTANTS.extend(_R6_W3)
# round 7 (worker W3): refusals that belong to an evaluated slice
from mutants_r7_w3 import E as _R7_W3  # noqa: E402

MUTANTS.extend(_R7_W3)
# round 4 (worker W1): classes added to the evaluated rules of C01, C02, C12, C13, C16
from mutants_r4_w1 import E as _R4_W1  # noqa: E402

MUTANTS.extend(_R4_W1)
# round 5 (worker W1)
from mutants_r5_w1 import E as _R5_W1  # noqa: E402

MUTANTS.extend(_R5_W1)
# round 6 (worker W1)
from mutants_r6_w1 import E as _R6_W1  # noqa: E402

MUTANTS.extend(_R6_W1)

from mutants_r4_w2 import E as _R4_W2  # noqa: E402

MUTANTS.extend(_R4_W2)

# ---------------------------------------------------------------- C15
P2 = "parser_v2.py"
T2 = "tertiary_v2.py"
A(M("c15-threshold-one-side", "C15", T2, "return distance < 1.5 * AVERAGE_OXYGEN_PHOSPHORUS_DISTANCE_COVALENT", "return distance < 1.4 * AVERAGE_OXYGEN_PHOSPHORUS_DISTANCE_COVALENT", "connect-threshold"))
A(M("c15-label-chain", "C15", T2, '            if "auth_asym_id" in self.atoms.columns:\n                return self.atoms["auth_asym_id"].iloc[0]\n            else:\n                return self.atoms["label_asym_id"].iloc[0]', '            if "label_asym_id" in self.atoms.columns:\n                return self.atoms["label_asym_id"].iloc[0]\n            else:\n                return self.atoms["auth_asym_id"].iloc[0]', "prefer-auth"))
A(M("c15-chi-n7", "C15", TT, '            self.find_atom("N9"),\n            self.find_atom("C4"),', '            self.find_atom("N7"),\n            self.find_atom("C4"),', "chi-atoms"))
A(M("c15-v2-column", "C15", P2, '"resSeq": line[22:26].strip(),', '"resSeq": line[23:27].strip(),', ["pdb-slices-agree", "pdb-slices-v2"]))
A(M("c15-v2-x", ["C15", "C09"], P2, '"x": line[30:38].strip(),', '"x": line[31:39].strip(),', ["pdb-slices-agree", "pdb-slices-v2"]))
A(M("c15-sort-key", "C15", T2, "key=lambda r: (r.residue_number, r.insertion_code or \"\")", "key=lambda r: r.residue_number", "connect-order"))
A(M("c15-dropna", "C15", T2, "grouped = self.atoms.groupby(groupby_cols, dropna=False, observed=False)\n\n        elif", "grouped = self.atoms.groupby(groupby_cols, observed=False)\n\n        elif", "group-columns"))
A(M("c15-p-atom", "C15", TT, '        p = next_residue_candidate.find_atom("P")\n\n        if o3p is not None and p is not None:\n            distance = numpy', '        p = next_residue_candidate.find_atom("O5\'")\n\n        if o3p is not None and p is not None:\n            distance = numpy', "connect-atoms"))
A(M("c15-v2-hetatm-prefilter", ["C15", "C09"], P2, "    for line in lines:\n        record_type = line[:6].strip()\n", "    for line in lines:\n        if not line.startswith((\"ATOM \", \"HETATM \", \"MODEL \")):\n            continue\n        record_type = line[:6].strip()\n", "pdb-record-filter"))
A(M("c15-backbone", "C15", T2, '"beta": [("P", 0), ("O5\'", 0), ("C5\'", 0), ("C4\'", 0)],', '"beta": [("P", 0), ("O5\'", 0), ("C5\'", 0), ("C3\'", 0)],', "backbone-atoms"))
A(M("c15-chi-order", "C15", TT, "        torsion = self.__chi_purine()\n        if math.isnan(torsion):\n            return self.__chi_pyrimidine()\n        return torsion", "        torsion = self.__chi_pyrimidine()\n        if math.isnan(torsion):\n            return self.__chi_purine()\n        return torsion", "chi-dispatch"))

# ---------------------------------------------------------------- C09
A(M("c09-serial-width", "C09", P2, 'serial = str(atom_data.get("serial", 0)).rjust(5)', 'serial = str(atom_data.get("serial", 0)).rjust(6)', "writer-layout"))
A(M("c09-gap", "C09", P2, '{chain_id}{res_seq}{icode}   "', '{chain_id}{res_seq}{icode}  "', "writer-layout"))
A(M("c09-reader-x", "C09", P2, '"y": line[38:46].strip(),', '"y": line[39:47].strip(),', ["writer-reader-columns", "pdb-slices-v2", "pdb-slices-agree"]))
A(M("c09-swap-attrs", "C09", P2, '            "label_comp_id",  # resName\n            "label_asym_id",  # chainID', '            "label_asym_id",  # chainID\n            "label_comp_id",  # resName', "field-map-pdb-to-cif"))
A(M("c09-precision", "C09", P2, "x = f\"{atom_data.get('x', 0.0):8.3f}\"", "x = f\"{atom_data.get('x', 0.0):8.2f}\"", "numeric-format"))
A(M("c09-cif-precision", "C09", P2, "f\"{float(row['x']):.3f}\",  # Cartn_x", "f\"{float(row['x']):.2f}\",  # Cartn_x", "numeric-format"))
A(M("c09-drop-ter-before-endmdl", "C09", P2, "                if last_chain_id is not None:\n                    ter_serial = str(last_serial + 1).rjust(5)\n                    ter_res_name = last_res_info[2].strip().rjust(3)\n                    ter_chain_id = last_chain_id\n                    ter_res_seq = str(last_res_info[0]).rjust(4)\n                    ter_icode = last_res_info[1] if last_res_info[1] else \"\"\n\n                    ter_line = f\"TER   {ter_serial}      {ter_res_name} {ter_chain_id}{ter_res_seq}{ter_icode}\"\n                    buffer.write(ter_line.ljust(80) + \"\\n\")\n                buffer.write(\"ENDMDL\\n\")", "                buffer.write(\"ENDMDL\\n\")", ["record-order", "ter-line"]))
A(M("c09-charge-abs", "C09", P2, "charge_fmt = f\"{abs(charge_int)}{'+' if charge_int > 0 else '-'}\"", "charge_fmt = f\"{charge_int}{'+' if charge_int > 0 else '-'}\"", "charge-format"))
A(M("c09-cif-source-item", "C09", P2, '"element": pdb_element,\n                "charge": pdb_charge,\n                "model": int(row.get("pdbx_PDB_model_num", 1)),', '"element": pdb_element,\n                "charge": pdb_charge,\n                "model": int(row.get("pdbx_PDB_model_num", 1)),', kind="silent"))
A(M("c09-cif-label-first", "C09", P2, 'str(row.get("auth_asym_id", row.get("label_asym_id")))', 'str(row.get("label_asym_id", row.get("auth_asym_id")))', "field-map-cif-to-pdb"))
A(M("c09-bfactor-item", "C09", P2, 'float(row.get("B_iso_or_equiv", 0.0))', 'float(row.get("occupancy", 0.0))', "field-map-cif-to-pdb"))
A(M("c09-model-line", "C09", P2, 'buffer.write(f"MODEL     {current_model_num:>4}\\n")', 'buffer.write(f"MODEL    {current_model_num:>4}\\n")', "model-line"))
A(M("c09-ter-serial", "C09", P2, '        ter_serial = str(last_serial + 1).rjust(5)\n        ter_res_name = last_res_info[2].strip().rjust(3)\n        ter_chain_id = last_chain_id\n        ter_res_seq = str(last_res_info[0]).rjust(4)\n        ter_icode = last_res_info[1] if last_res_info[1] else ""\n\n        ter_line = f"TER   {ter_serial}      {ter_res_name}', '        ter_serial = str(last_serial + 1).rjust(5)\n        ter_res_name = last_res_info[2].strip().rjust(3)\n        ter_chain_id = last_chain_id\n        ter_res_seq = str(last_res_info[0]).rjust(4)\n        ter_icode = last_res_info[1] if last_res_info[1] else ""\n\n        ter_line = f"TER   {ter_serial}     {ter_res_name}', "ter-line"))
A(M("c09-no-ter-at-chain", "C09", P2, "if last_chain_id is not None and current_chain_id != last_chain_id:", "if last_chain_id is not None and current_chain_id != last_chain_id and False:", "record-order"))
A(M("c09-charge-verbatim", "C09", P2, "                if charge_val[1] == \"+\":\n                    charge_val = charge_val[0]", "                if charge_val[1] == \"+\":\n                    charge_val = charge_val", "value-domain"))
A(M("c09-icode-placeholder", "C09", P2, 'icode_val = "." if pd.isna(row.get("iCode")) else str(row["iCode"])', 'icode_val = "-" if pd.isna(row.get("iCode")) else str(row["iCode"])', "null-agreement"))

# ---------------------------------------------------------------- C10
A(M("c10-limit-one-place", "C10", P2, 'pd.to_numeric(df["id"], errors="coerce").max() > 99999', 'pd.to_numeric(df["id"], errors="coerce").max() > 999999', "fit-test"))
A(M("c10-len-df", "C10", P2, 'pd.to_numeric(df["id"], errors="coerce").max() > 99999', 'len(df) > 99999', "fit-test"))
A(M("c10-runtimeerror", "C10", P2, '        raise ValueError(\n            f"Cannot fit to PDB: Number of unique chains', '        raise RuntimeError(\n            f"Cannot fit to PDB: Number of unique chains', "only-valueerror"))
A(M("c10-return-copy", "C10", P2, "    if can_write_pdb(df):\n        return df\n", "    if can_write_pdb(df):\n        return df.copy()\n", "fits-returns-same"))
A(M("c10-store-x", "C10", P2, "    df_fitted[icode_col] = None  # Insertion codes are now redundant\n", "    df_fitted[icode_col] = None  # Insertion codes are now redundant\n    df_fitted[\"occupancy\"] = 1.0\n", "frame-condition"))
A(M("c10-alphabet-short", "C10", P2, "string.ascii_uppercase + string.ascii_lowercase + string.digits", "string.ascii_uppercase + string.ascii_lowercase", "chain-alphabet"))
A(M("c10-drop-feasibility", "C10", P2, "    if num_chains > max_pdb_chains:\n        raise ValueError(\n            f\"Cannot fit to PDB: Number of unique chains ({num_chains}) exceeds PDB limit ({max_pdb_chains}).\"\n        )\n", "", ["feasibility", "chain-map"]))
A(M("c10-residue-skip", "C10", P2, "        all_new_res_maps[new_chain_id] = residue_mapping\n", "        all_new_res_maps[new_chain_id] = residue_mapping\n        if len(residue_mapping) < 2:\n            continue\n", "residue-map"))
A(M("c10-fillna-category", "C10", P2, '"iCode": df[icode_col].astype(object).fillna("")', '"iCode": df[icode_col].fillna("")', "dtype-typestate"))
A(M("c10-rename-dup", "C10", P2, '        "auth_comp_id": "resName",\n    }', '        "auth_comp_id": "resName",\n        "label_comp_id": "resName",\n    }', "rename-injective"))
A(M("c10-rename-missing", "C10", P2, '        "label_alt_id": "altLoc",\n', "", "rename-coverage"))
A(M("c10-serial-ter", "C10", P2, "            current_serial += 1  # Increment for TER line\n", "            pass\n", "serial-renumber"))
A(M("c10-resseq-limit", "C10", P2, "max_pdb_residue = 9999", "max_pdb_residue = 99999", "limits"))
A(M("c10-write-input", "C10", P2, "    df_fitted = df.copy()\n", "    df[chain_col] = df[chain_col].astype(object)\n    df_fitted = df.copy()\n", "input-untouched"))

# ---------------------------------------------------------------- C17
CF = "clashfinder.py"
A(M("c17-radius-half", "C17", CF, "kdtree.query_pairs(2.0 * max_radius + molprobity_factor)", "kdtree.query_pairs(max_radius + molprobity_factor)", "search-radius"))
A(M("c17-radius-no-extra", "C17", CF, "kdtree.query_pairs(2.0 * max_radius + molprobity_factor)", "kdtree.query_pairs(2.0 * max_radius)", "search-radius"))
A(M("c17-distance-dir", "C17", CF, "if distance > sum_vdw_radii + molprobity_factor:", "if distance < sum_vdw_radii + molprobity_factor:", ["distance-threshold", "distance-region", "search-radius"]))
A(M("c17-swap-cli", "C17", CF, "        args.ignore_occupancy,\n        args.ignore_autoclashes,", "        args.ignore_autoclashes,\n        args.ignore_occupancy,", "cli-arguments"))
A(M("c17-wrong-accumulator", "C17", CF, "[max_occupancy_chains.get((ri.chain, rj.chain), 0.0), occupancy]", "[max_occupancy_residues.get((ri.chain, rj.chain), 0.0), occupancy]", "accumulator"))
A(M("c17-occupancy-or", "C17", CF, "(1.0 if ai.occupancy is None else ai.occupancy)", "(ai.occupancy or 1.0)", ["optional-truthiness", "occupancy-sum"]))
A(M("c17-molprobity-1", "C17", CF, "molprobity_factor = 0.5 if enable_molprobity_mode is True else 0.0", "molprobity_factor = 0.4 if enable_molprobity_mode is True else 0.0", ["distance-threshold", "molprobity-term"]))
A(M("c17-option-wired-wrong", "C17", CF, "if ignore_autoclashes is True and ri == rj:", "if require_same_atom_name is True and ri == rj:", "option-filter"))
A(M("c17-extra-filter", "C17", CF, "        distance = np.linalg.norm(ai.coordinates - aj.coordinates)\n", "        if ai.name.startswith(\"P\") and aj.name.startswith(\"P\"):\n            continue\n        distance = np.linalg.norm(ai.coordinates - aj.coordinates)\n", "option-extra-filter"))
A(M("c17-csv-unsorted", "C17", CF, "                        for ai, aj, occupancy in sorted(\n                            clashing_chains[(ci, cj)][(ri, rj)]\n                        ):", "                        for ai, aj, occupancy in (\n                            clashing_chains[(ci, cj)][(ri, rj)]\n                        ):", ["report-loops"]))
A(M("c17-threshold-one-radius", "C17", CF, "sum_vdw_radii = AtomType[ai.name[0]].radius + AtomType[aj.name[0]].radius", "sum_vdw_radii = AtomType[ai.name[0]].radius + AtomType[ai.name[0]].radius", "distance-threshold"))
A(M("c17-radius-comb", "C17", CF, "    max_radius = max([atom_type.radius for atom_type in AtomType])\n", "    import itertools\n    max_radius = max(a.radius + b.radius for a, b in itertools.combinations(AtomType, 2)) / 2.0\n", "search-radius"))
A(M("c17-radius-silent", "C17", CF, "kdtree.query_pairs(2.0 * max_radius + molprobity_factor)", "kdtree.query_pairs(2.5 * max_radius + molprobity_factor)", kind="silent"))

# ---------------------------------------------------------------- C18
A(M("c18-atan2-swap", "C18", TT, "angle = math.atan2(dot_t2_t3, dot_t1_t2)", "angle = math.atan2(dot_t1_t2, dot_t2_t3)", "torsion-closed-form"))
A(M("c18-t3-v3", "C18", TT, "t3 = v1_norm * numpy.linalg.norm(v2_norm)", "t3 = v3_norm * numpy.linalg.norm(v2_norm)", "torsion-closed-form"))
A(M("c18-cross-order", "C18", TT, "t1 = numpy.cross(v1_norm, v2_norm)", "t1 = numpy.cross(v2_norm, v1_norm)", "torsion-closed-form"))
A(M("c18-v2-fixed-sign", "C18", T2, "m1 = np.cross(n1, v2 / np.linalg.norm(v2))", "m1 = np.cross(v2 / np.linalg.norm(v2), n1)", kind="silent"))
A(M("c18-v2-drop-norm", "C18", T2, "m1 = np.cross(n1, v2 / np.linalg.norm(v2))", "m1 = np.cross(n1, v2)", "torsion-closed-form"))
A(M("c18-v2-guard", "C18", T2, "    n1 = n1 / n1_norm\n    n2 = n2 / n2_norm\n", "    if min(n1_norm, n2_norm) < 0.5:\n        return float(\"nan\")\n    n1 = n1 / n1_norm\n    n2 = n2 / n2_norm\n", "degenerate-guard"))
A(M("c18-degrees-return", "C18", TT, "    return angle if not math.isnan(angle) else 0.0", "    return math.degrees(angle) if not math.isnan(angle) else 0.0", "torsion-returned"))
A(M("c18-chi-c8", "C18", TT, '            self.find_atom("N9"),\n            self.find_atom("C4"),', '            self.find_atom("N9"),\n            self.find_atom("C8"),', "chi-atoms"))
A(M("c18-cis-no-degrees", "C18", AN, "torsion = math.degrees(torsion_angle(c1p_i, n9n1_i, n9n1_j, c1p_j))", "torsion = torsion_angle(c1p_i, n9n1_i, n9n1_j, c1p_j)", "cis-trans"))
A(M("c18-chi-class-deg", "C18", TT, "if math.radians(-30) < self.chi < math.radians(120):", "if -30 < self.chi < 120:", "chi-class-units"))
A(M("c18-wrapper-order", "C18", TT, "        a1.coordinates, a2.coordinates, a3.coordinates, a4.coordinates\n", "        a1.coordinates, a3.coordinates, a2.coordinates, a4.coordinates\n", "torsion-wrapper"))
A(M("c18-renorm-silent", "C18", TT, "    t3 = v1_norm * numpy.linalg.norm(v2_norm)", "    length = numpy.linalg.norm(v2_norm)\n    t3 = v1_norm * length", kind="silent"))

# ---------------------------------------------------------------- C19
AD = "adapter.py"
A(M("c19-narrow-handler", "C19", AD, "    except (ValueError, IndexError) as e:\n        logging.warning(f\"Error parsing interaction: {e}\")", "    except ValueError as e:\n        logging.warning(f\"Error parsing interaction: {e}\")", "fr3d-total"))
A(M("c19-drop-other", "C19", AD, '        elif interaction_category == "other":\n            interactions_data["other_interactions"].append(\n                OtherInteraction(nt1_residue, nt2_residue)\n            )\n', "", "dispatch-exhaustive"))
A(M("c19-wrong-class", "C19", AD, "                Stacking(nt1_residue, nt2_residue, classification)", "                BasePair(nt1_residue, nt2_residue, classification, None)", "dispatch-branch"))
A(M("c19-swap-fields", "C19", AD, '        interactions_data["base_ribose_interactions"],\n        interactions_data["base_phosphate_interactions"],\n        interactions_data["other_interactions"],\n    )', '        interactions_data["base_phosphate_interactions"],\n        interactions_data["base_ribose_interactions"],\n        interactions_data["other_interactions"],\n    )', "result-fields"))
A(M("c19-field-index", "C19", AD, "auth = ResidueAuth(fields[2], int(fields[4]), icode, fields[3])", "auth = ResidueAuth(fields[2], int(fields[5]), icode, fields[3])", "unit-id"))
A(M("c19-suffix-original", "C19", AD, "        fr3d_name = fr3d_name[:-1]  # Remove the 'a' suffix", "        fr3d_name = original_name[:-1]  # Remove the 'a' suffix", "normaliser-self-update"))
A(M("c19-dir-guard", "C19", AD, "lw in LeontisWesthof.__members__", "lw in dir(LeontisWesthof)", "guard-exact"))
A(M("c19-lw-keyerror", "C19", AD, "            return (\"base-pair\", LeontisWesthof[lw_format])\n        except KeyError:", "            return (\"base-pair\", LeontisWesthof[lw_format])\n        except ValueError:", "fr3d-total"))
A(M("c19-stack-zip", "C19", AD, "        for i in range(1, len(nts)):\n            nt1 = nts[i - 1]\n            nt2 = nts[i]\n            if nt1 is not None and nt2 is not None:\n                stackings.append(Stacking(nt1, nt2, None))", "        nts = [nt for nt in nts if nt is not None]\n        for nt1, nt2 in zip(nts, nts[1:]):\n            stackings.append(Stacking(nt1, nt2, None))", "dssr-eval"))
A(M("c19-edge-case", "C19", AD, "edge2 = fr3d_name[2].upper()", "edge2 = fr3d_name[2]", ["normaliser-eval", "normaliser-lw"]))
A(M("c19-stack-table", "C19", AD, '        if fr3d_name == "s35":\n            return ("stacking", StackingTopology.outward)', '        if fr3d_name == "s35":\n            return ("stacking", StackingTopology.inward)', ["normaliser-eval", "normaliser-stacking"]))
A(M("c19-icode-guard", "C19", AD, 'icode = fields[7] if len(fields) >= 8 and fields[7] != "" else None', 'icode = fields[7] if len(fields) >= 7 and fields[7] != "" else None', ["unit-id"]))
A(M("c19-parts-guard-silent", "C19", AD, "        if len(parts) < 3:\n            logging.warning(f\"Invalid interaction line format: {line}\")\n            return False\n", "        if len(parts) < 3:\n            return False\n", kind="silent"))

# ---------------------------------------------------------------- C20
TR = "transformer.py"
A(M("c20-pass-path", "C20", TR, "        output = copy_from_to(\n            file_content, args.category", "        output = copy_from_to(\n            args.input, args.category", ["cli-eval", "cli-content"]))
A(M("c20-tuple-written", "C20", TR, "        output, _ = replace_value(", "        output = replace_value(", ["cli-eval", "cli-writes-str"]))
A(M("c20-direction", "C20", TR, "            row[j] = row[i]\n", "            row[i] = row[j]\n", ["edit-eval", "row-stores"]))
A(M("c20-early-empty", "C20", TR, "    if copy_from not in attributes:\n        return file_content\n", "    if copy_from not in attributes:\n        return \"\"\n", ["early-exit-eval", "early-exit-identity"]))
A(M("c20-defensive-copy", "C20", TR, "    category_obj = data[0].getObj(category)\n    attributes = category_obj.getAttributeList()\n\n    if copy_from not in attributes:", "    category_obj = data[0].getObj(category)\n    attributes = list(category_obj.getAttributeList())\n\n    if copy_from not in attributes:", ["edit-eval", "edit-reaches-output"]))
A(M("c20-filetype", "C20", TR, 'parser.add_argument("output", help="path to output mmCIF file")', 'parser.add_argument("output", type=argparse.FileType("w"), help="path to output mmCIF file")', ["cli-path-args", "cli-eval", "cli-open-order"]))
A(M("c20-mapping-not-first-seen", "C20", TR, "            mapping[row[i]] = values[len(mapping)]", "            mapping[row[i]] = values[len(mapping) % len(values)]", ["mapping-total", "row-stores"]))
A(M("c20-mapping-dropped", "C20", TR, "        return f.read(), mapping", "        return f.read(), {}", ["edit-eval", "result"]))
A(M("c20-wiring", "C20", TR, "file_content, args.category, args.replace, args.values", "file_content, args.category, args.values, args.replace", ["cli-eval", "cli-wiring"]))
A(M("c20-open-before-read", "C20", TR, "    with open(args.input) as f:\n        file_content = f.read()\n\n    if args.copy_from", "    out = open(args.output, \"w\")\n    with open(args.input) as f:\n        file_content = f.read()\n\n    if args.copy_from", ["cli-inplace-eval", "cli-eval", "cli-open-order-evidence"], kind="fire"))

# ---------------------------------------------------------------- C06
A(M("c06-row-guard-one", "C06", TT, "                        if base_pair.nt1 not in used and base_pair.nt2 not in used:\n                            row.append(base_pair)", "                        if base_pair.nt1 not in used:\n                            row.append(base_pair)", ["row-typestate", "extended-fact"]))
A(M("c06-remove-unguarded", "C06", TT, "            for pairs in matches.values():\n                if len(pairs) > 1:\n                    pairs = sorted(pairs, key=pair_scoring_function)\n                    canonical.remove(pairs[-1])\n                    break\n            else:\n                break\n\n        return self.__generate_bpseq(canonical)", "            for pairs in matches.values():\n                if len(pairs) > 0:\n                    pairs = sorted(pairs, key=pair_scoring_function)\n                    canonical.remove(pairs[-1])\n                    break\n            else:\n                break\n\n        return self.__generate_bpseq(canonical)", ["matching-typestate", "resolution-fact"]))
A(M("c06-counter", "C06", TT, "                        result[i] = [i, \"?\", 0]\n                        i += 1\n", "                        result[i] = [i, \"?\", 0]\n", ["numbering", "numbering-fact"]))
A(M("c06-gap-one-side", "C06", TT, "                        for k in range(residue.number - previous.number - 1):\n                            result[-1][1].append(\"?\")", "                        for k in range(residue.number - previous.number):\n                            result[-1][1].append(\"?\")", ["gap-rule-agree", "strands-fact"]))
A(M("c06-slice-step", "C06", TT, "            result.append(\"\".join(dbn[i : i + len(sequence)]))\n            i += len(sequence)", "            result.append(\"\".join(dbn[i : i + len(sequence)]))\n            i += 1", ["strand-slices", "strand-text-fact"]))
A(M("c06-reverse-not-used", "C06", TT, "                if bp.reverse not in used:\n                    result.append(bp.reverse)\n                    used.add(bp.reverse)", "                if bp.reverse not in used:\n                    result.append(bp.reverse)", "lifting-guarded-insert"))
A(M("c06-asymmetric", "C06", TT, "            result[j][2] = k\n            result[k][2] = j\n", "            result[j][2] = k\n", ["symmetric-pairs", "numbering-fact"]))
A(M("c06-connected-swapped", "C06", TT, "                if (\n                    not previous.is_connected(residue)\n                    and previous.chain == residue.chain\n                ):", "                if (\n                    not residue.is_connected(previous)\n                    and previous.chain == residue.chain\n                ):", ["gap-rule-agree", "numbering-fact"]))
A(M("c06-nucleotides-differ", "C06", TT, "        nucleotides = list(filter(lambda r: r.is_nucleotide, self.structure3d.residues))\n        result: Dict[int, List] = {}", "        nucleotides = list(self.structure3d.residues)\n        result: Dict[int, List] = {}", ["nucleotides-agree", "numbering-fact"]))
A(M("c06-candidates-both-dirs", "C06", TT, "            if base_pair.is_canonical and base_pair.nt1 < base_pair.nt2\n        ]\n\n        while True:\n            # lists in input order, not sets: the stable sort below then breaks\n            # ties of the scoring key the same way under every PYTHONHASHSEED\n            matches = defaultdict(list)\n\n            for base_pair in canonical:\n                for residue in (base_pair.nt1_3d, base_pair.nt2_3d):\n                    if base_pair not in matches[residue]:\n                        matches[residue].append(base_pair)\n\n            for pairs in matches.values():\n                if len(pairs) > 1:\n                    pairs = sorted(pairs, key=pair_scoring_function)\n                    canonical.remove(pairs[-1])\n                    break\n            else:\n                break\n\n        return self.__generate_bpseq(canonical)", "            if base_pair.is_canonical\n        ]\n\n        while True:\n            # lists in input order, not sets: the stable sort below then breaks\n            # ties of the scoring key the same way under every PYTHONHASHSEED\n            matches = defaultdict(list)\n\n            for base_pair in canonical:\n                for residue in (base_pair.nt1_3d, base_pair.nt2_3d):\n                    if base_pair not in matches[residue]:\n                        matches[residue].append(base_pair)\n\n            for pairs in matches.values():\n                if len(pairs) > 1:\n                    pairs = sorted(pairs, key=pair_scoring_function)\n                    canonical.remove(pairs[-1])\n                    break\n            else:\n                break\n\n        return self.__generate_bpseq(canonical)", "canonical-candidates"))
A(M("c06-dangling", "C06", TT, "            if nt1 is not None and nt2 is not None:\n                bp = BasePair3D(", "            if nt1 is not None:\n                bp = BasePair3D(", "lifting-dangling"))

# ---------------------------------------------------------------- C01 text forms / C09 splitter
A(M("c01-str-order", "C01", C, 'return "\\n".join(("{} {} {}".format(i, c, j) for i, c, j in self.entries))', 'return "\\n".join(("{} {} {}".format(i, j, c) for i, c, j in self.entries))', "bpseq-text"))
A(M("c01-fromstring-field", "C01", C, "entry = Entry(int(fields[0]), fields[1], int(fields[2]))", "entry = Entry(int(fields[0]), fields[1], int(fields[0]))", "bpseq-text"))
A(M("c01-multistrand-first", "C01", C, "            first = last + 1\n", "            first = last\n", "multistrand-text"))
A(M("c09-splitter-nofit", "C09", "splitter.py", "                df_to_write = fit_to_pdb(model_df)\n                write_pdb(df_to_write, output_path)", "                write_pdb(model_df, output_path)", ["splitter-wiring", "fit-before-write"]))  # round 4: read along the paths to the writer

# ---------------------------------------------------------------- rename + reflow twins (sa/align.py)
def R(id, props, file, func, rename):
    return dict(id=id, props=props, file=file, func=func, rename=rename, kind="silent", rule=None)


A(R("ren-find-pairs", ["C03", "C05", "C11", "C14"], AN, "find_pairs", {"residue_i": "res_a", "residue_j": "res_b", "atom_i": "at_a", "atom_j": "at_b", "occupied": "taken", "labels": "votes", "hydrogen_bonds": "hbonds", "cis_trans": "ct", "edges_i": "ea", "edges_j": "eb", "vector": "bond", "angle1": "alpha", "angle2": "beta", "kdtree": "tree", "type_i": "ti", "type_j": "tj"}))
A(R("ren-find-stackings", ["C04", "C05", "C11"], AN, "find_stackings", {"residue_i": "ra", "residue_j": "rb", "normal_i": "na", "normal_j": "nb", "same_direction": "parallel", "pairs": "found", "vector": "offset", "xs": "cx", "ys": "cy", "zs": "cz", "geometric_center": "centroid"}))
A(R("ren-elements", ["C07", "C12", "C01"], C, "BpSeq.elements", {"stops": "cuts", "stopset": "cutset", "candidate": "window", "loop_candidates": "open_strands", "graph": "links", "loop": "cycle", "used": "consumed", "stem": "helix"}))
A(R("ren-convert", ["C02", "C13", "C01"], C, "BpSeq.convert_to_dot_bracket", {"regions": "stems_", "graph": "conflicts", "max_order": "n_levels", "problem": "model", "variable": "xvar", "terms": "objective_terms", "orders": "levels", "vars_by_order": "by_level", "vars_by_region": "by_stem", "var_by_region_order": "lookup", "region_by_var": "owner", "length": "weight", "ri": "a", "rj": "b", "k": "a0", "l": "a1", "m": "b0", "n": "b1"}))
A(R("ren-all-db", ["C16", "C01", "C14"], C, "BpSeq.all_dot_brackets", {"graph": "conflicts", "vertices": "nodes", "visited": "seen", "components": "groups", "stack": "todo", "current": "top", "next_vertex": "nxt", "neighbor": "nb", "unique": "per_group", "permutation": "perm", "available": "free", "solutions": "found", "assignment": "combo", "component": "group"}))
A(R("ren-fcfs", ["C01", "C13"], C, "BpSeq.fcfs", {"regions": "stems_", "orders": "levels", "available": "free", "conflicted": "crossing", "k": "a0", "l": "a1", "m": "b0", "n": "b1"}))
A(R("ren-fill", ["C01", "C02", "C16"], C, "BpSeq.__make_dot_bracket", {"structure": "out", "brackets": "alphabet", "bracket": "pair_chars", "stem": "reg", "j": "p", "k": "q", "n": "count"}))
A(R("ren-filter", ["C08", "C14"], PA, "filter_clashing_atoms", {"unique_atoms": "best", "unique_atoms_list": "kept", "coords": "xyz", "tree": "kd", "pairs": "close", "atoms_to_keep": "alive", "key": "ident"}))
A(R("ren-fit", ["C10"], P2, "fit_to_pdb", {"df_fitted": "out", "chain_mapping": "cmap", "residue_mapping": "rmap", "unique_chains": "chains", "rename_map": "renames", "check_df": "probe", "current_serial": "serial_no"}))
A(R("ren-write-pdb", ["C09"], P2, "write_pdb", {"buffer": "out", "atom_data": "rec", "last_chain_id": "prev_chain", "last_model_num": "prev_model", "last_res_info": "prev_res", "last_serial": "prev_serial", "current_chain_id": "chain_now", "current_model_num": "model_now", "current_res_info": "res_now"}))
A(R("ren-clashes", ["C17"], CF, "find_clashes", {"ai": "a", "aj": "b", "ri": "ra", "rj": "rb", "distance": "d", "sum_vdw_radii": "limit", "molprobity_factor": "extra", "max_radius": "rmax", "kdtree": "tree"}))
A(R("ren-torsion", ["C18"], TT, "calculate_torsion_angle_coords", {"v1": "b1", "v2": "b2", "v3": "b3", "v1_norm": "u1", "v2_norm": "u2", "v3_norm": "u3", "t1": "n1", "t2": "n2", "t3": "m", "angle": "phi"}))
A(R("ren-bpseq-gen", ["C06", "C14"], TT, "Mapping2D3D.__generate_bpseq", {"nucleotides": "nts", "result": "rows", "residue_map": "number_of", "index_to_residue_map": "residue_at", "previous": "prev", "residue": "res"}))
A(R("ren-extended", ["C06"], TT, "Mapping2D3D.extended_dot_bracket", {"rows": "layers", "used_per_row": "busy", "row": "layer", "used": "taken", "result": "blocks", "base_pair": "bp"}))
A(R("ren-process-line", ["C19"], AD, "_process_interaction_line", {"parts": "cols", "nt1": "left", "nt2": "right", "interaction_type": "label", "nt1_residue": "r1", "nt2_residue": "r2", "interaction_category": "category", "classification": "cls_"}))
A(R("ren-copy", ["C20"], TR, "copy_from_to", {"attributes": "names", "transformed": "rows_out", "category_obj": "cat", "row": "r", "i": "src", "j": "dst"}))
A(R("ren-without-isolated", ["C12"], C, "BpSeq.without_isolated", {"to_unpair": "lonely", "entries": "copied", "stems": "helices", "stem": "helix"}))


# ---- round 3: C06 / C14 (W4) - fact-level rules of checks/c06e.py (class-level fragment evaluation) and the C14 extensions
B6R3, B6R4, B14R3 = dict(base="C06-r3"), dict(base="C06-r4"), dict(base="C14-r3")
# conflict resolution rewritten as a helper returning the pair to drop (C06-r3) / a walrus loop over a module helper (C14-r3)
A(M("c06e-r3-threshold", "C06", TT, "                if len(candidates) > 1:\n                    return sorted(candidates, key=pair_scoring_function)[-1]", "                if len(candidates) > 2:\n                    return sorted(candidates, key=pair_scoring_function)[-1]", "resolution-fact", **B6R3))
A(M("c06e-r3-drops-best", "C06", TT, "return sorted(candidates, key=pair_scoring_function)[-1]", "return sorted(candidates, key=pair_scoring_function)[0]", "resolution-fact", **B6R3))
A(M("c06e-r3-single-round", "C06", TT, "        while worst is not None:\n            canonical.remove(worst)\n            worst = first_conflict(canonical)", "        if worst is not None:\n            canonical.remove(worst)", "resolution-fact", **B6R3))
A(M("c06e-r3-asymmetric", "C06", TT, "            if j is not None and k is not None:\n                result[j][2] = k\n                result[k][2] = j", "            if j is not None and k is not None:\n                result[j][2] = k", "numbering-fact", **B6R3))
A(M("c06e-r3-ge2-silent", ["C06", "C14"], TT, "                if len(candidates) > 1:\n                    return sorted(candidates, key=pair_scoring_function)[-1]", "                if len(candidates) >= 2:\n                    return max(candidates, key=pair_scoring_function)", kind="silent", **B6R3))
A(M("c06e-r14-first-not-worst", "C06", TT, "canonical.remove(sorted(pairs, key=pair_scoring_function)[-1])", "canonical.remove(sorted(pairs, key=pair_scoring_function)[0])", "resolution-fact", **B14R3))
A(M("c06e-r14-any-set", "C06", TT, "return next((pairs for pairs in matches.values() if len(pairs) > 1), None)", "return next((pairs for pairs in matches.values() if len(pairs) > 0), None)", "resolution-fact", **B14R3))
A(M("c14-r14-key-rank-only", "C14", TT, "return (0 if watson_crick else 1), pair.nt1, pair.nt2", "return (0 if watson_crick else 1), pair.nt1", None, kind="silent", **B14R3))
A(M("c14-r3-nested-key-rank-only", "C14", TT, "return (0 if is_watson_crick(pair) else 1), pair.nt1, pair.nt2", "return (0 if is_watson_crick(pair) else 1)", None, kind="silent", **B6R3))
# strand sequences over zip(nucleotides, nucleotides[1:]) and one shared text formatter (C06-r4)
A(M("c06e-r4-gap-count", "C06", TT, 'letters.extend("?" * (residue.number - previous.number - 1))', 'letters.extend("?" * (residue.number - previous.number))', "strands-fact", **B6R4))
A(M("c06e-r4-gap-direction", "C06", TT, "if self.find_gaps and not previous.is_connected(residue):", "if self.find_gaps and not residue.is_connected(previous):", "strands-fact", **B6R4))
A(M("c06e-r4-zip-skip", "C06", TT, "for previous, residue in zip(nucleotides, nucleotides[1:]):", "for previous, residue in zip(nucleotides, nucleotides[2:]):", "strands-fact", **B6R4))
A(M("c06e-r4-rows-shifted", "C06", TT, "for (chain, sequence), dbn in zip(self.strands_sequences, dbns)", "for (chain, sequence), dbn in zip(self.strands_sequences, dbns[::-1])", "strand-text-fact", **B6R4))
A(M("c06e-r4-first-member-only", "C06", TT, "for dot_bracket in self.bpseq.all_dot_brackets\n        ]", "for dot_bracket in self.bpseq.all_dot_brackets[:1]\n        ]", "strand-text-fact", **B6R4))
A(M("c06e-r4-guard-order-silent", "C06", TT, "if self.find_gaps and not previous.is_connected(residue):", "if not (not self.find_gaps or previous.is_connected(residue)):", kind="silent", **B6R4))
# clean tree: residue look-up, lifting, extended rows
A(M("c06e-position-only-key", "C06", TT, "            if residue.auth is not None:\n                self.residue_map[residue.auth] = residue", "            if residue.auth is not None:\n                self.residue_map[residue.auth] = residue\n                self.residue_map[(residue.auth.chain, residue.auth.number)] = residue", kind="silent"))
A(M("c06e-position-fallback", "C06", TT, "        if auth is not None and auth in self.residue_map:\n            return self.residue_map.get(auth)\n        return None", "        if auth is not None and auth in self.residue_map:\n            return self.residue_map.get(auth)\n        if auth is not None:\n            for key, residue in self.residue_map.items():\n                if isinstance(key, ResidueAuth) and (key.chain, key.number, key.icode) == (auth.chain, auth.number, auth.icode):\n                    return residue\n        return None", "lifting-fact"))
A(M("c06e-label-ignored", "C06", TT, "        if label is not None and label in self.residue_map:\n            return self.residue_map.get(label)\n", "", "lifting-fact"))
A(M("c06e-extended-3prime", "C06", TT, "if base_pair.lw == lw and base_pair.nt1 < base_pair.nt2:", "if base_pair.lw == lw and base_pair.nt1 > base_pair.nt2:", "extended-fact"))
A(M("c06e-extended-class-prefilter", "C06", TT, "        for lw in LeontisWesthof:\n            # as many rows", "        listed = {bp.lw for bp in self.base_pairs2d}\n        for lw in LeontisWesthof:\n            if lw not in listed:\n                continue\n            # as many rows", "extended-fact"))
A(M("c06e-extended-prefilter-silent", "C06", TT, "        for lw in LeontisWesthof:\n            # as many rows", "        listed = {bp.lw for bp in self.base_pairs}\n        for lw in LeontisWesthof:\n            if lw not in listed:\n                continue\n            # as many rows", kind="silent"))
A(M("c06e-extended-swapped-silent", "C06", TT, "if base_pair.lw == lw and base_pair.nt1 < base_pair.nt2:", "if base_pair.nt2 > base_pair.nt1 and lw == base_pair.lw:", kind="silent"))
A(M("c06e-candidates-gt-silent", ["C06", "C14"], TT, "            if base_pair.is_canonical and base_pair.nt1 < base_pair.nt2\n        ]", "            if base_pair.nt2 > base_pair.nt1 and base_pair.is_canonical\n        ]", kind="silent", count=2))
A(M("c06e-resolution-if-not-loop", "C06", TT, "        while True:\n            # lists in input order, not sets: the stable sort below then breaks\n            # ties of the scoring key the same way under every PYTHONHASHSEED\n            matches = defaultdict(list)\n\n            for base_pair in canonical:\n                for residue in (base_pair.nt1_3d, base_pair.nt2_3d):\n                    if base_pair not in matches[residue]:\n                        matches[residue].append(base_pair)\n\n            for pairs in matches.values():\n                if len(pairs) > 1:\n                    pairs = sorted(pairs, key=pair_scoring_function)\n                    canonical.remove(pairs[-1])\n                    break\n            else:\n                break\n\n        return self.__generate_bpseq(canonical)", "        matches = defaultdict(list)\n\n        for base_pair in canonical:\n            for residue in (base_pair.nt1_3d, base_pair.nt2_3d):\n                if base_pair not in matches[residue]:\n                    matches[residue].append(base_pair)\n\n        for pairs in matches.values():\n            if len(pairs) > 1:\n                worst = sorted(pairs, key=pair_scoring_function)[-1]\n                canonical.remove(worst)\n                for residue in (worst.nt1_3d, worst.nt2_3d):\n                    if worst in matches[residue]:\n                        matches[residue].remove(worst)\n\n        return self.__generate_bpseq(canonical)", "resolution-fact"))
A(M("c06e-resolution-incremental-silent", ["C06", "C14"], TT, "        while True:\n            # lists in input order, not sets: the stable sort below then breaks\n            # ties of the scoring key the same way under every PYTHONHASHSEED\n            matches = defaultdict(list)\n\n            for base_pair in canonical:\n                for residue in (base_pair.nt1_3d, base_pair.nt2_3d):\n                    if base_pair not in matches[residue]:\n                        matches[residue].append(base_pair)\n\n            for pairs in matches.values():\n                if len(pairs) > 1:\n                    pairs = sorted(pairs, key=pair_scoring_function)\n                    canonical.remove(pairs[-1])\n                    break\n            else:\n                break\n\n        return self.__generate_bpseq(canonical)", "        while True:\n            # lists in input order, not sets: the stable sort below then breaks\n            # ties of the scoring key the same way under every PYTHONHASHSEED\n            matches = defaultdict(list)\n\n            for base_pair in canonical:\n                for residue in (base_pair.nt1_3d, base_pair.nt2_3d):\n                    if base_pair not in matches[residue]:\n                        matches[residue].append(base_pair)\n\n            conflicted = [pairs for pairs in matches.values() if len(pairs) > 1]\n            if not conflicted:\n                break\n            canonical.remove(sorted(conflicted[0], key=pair_scoring_function)[-1])\n\n        return self.__generate_bpseq(canonical)", kind="silent"))
# C14: module-level set constants, set algebra, nested helpers, queries that mutate what they read
A(M("c14-module-frozenset-loop", "C14", PA, '    for candidate in "ACGUT":', '    for candidate in frozenset("ACGUT"):', "order-taint"))
A(M("c14-module-set-const-loop", "C14", PA, 'logger = logging.getLogger(__name__)\n', 'logger = logging.getLogger(__name__)\nCANDIDATES = set(BASE_ATOMS) - {"N"}\n', "order-taint", edits=[('logger = logging.getLogger(__name__)\n', 'logger = logging.getLogger(__name__)\nCANDIDATES = set(BASE_ATOMS) - {"N"}\n'), ('    for candidate in "ACGUT":', '    for candidate in CANDIDATES:')]))
A(M("c14-module-const-sorted-silent", "C14", PA, 'logger = logging.getLogger(__name__)\n', '', kind="silent", edits=[('logger = logging.getLogger(__name__)\n', 'logger = logging.getLogger(__name__)\nCANDIDATES = frozenset(BASE_ATOMS)\n'), ('    for candidate in "ACGUT":', '    for candidate in sorted(CANDIDATES):')]))
A(M("c14-module-const-membership-silent", "C14", PA, 'logger = logging.getLogger(__name__)\n', '', kind="silent", edits=[('logger = logging.getLogger(__name__)\n', 'logger = logging.getLogger(__name__)\nKNOWN = frozenset("ACGUTN")\n'), ('            if one_letter_name not in "ACGUTN":', '            if one_letter_name not in KNOWN:')]))
A(M("c14-query-mutates-cached-list", "C14", TT, "        for dot_bracket in self.bpseq.all_dot_brackets:\n            dbns = self.__generate_dot_bracket_per_strand(dot_bracket.structure)", "        members = self.bpseq.all_dot_brackets\n        members.sort(key=lambda d: d.structure)\n        for dot_bracket in members:\n            dbns = self.__generate_dot_bracket_per_strand(dot_bracket.structure)", "query-write"))
A(M("c14-query-sorts-copy-silent", ["C14", "C06", "C12"], TT, "        for dot_bracket in self.bpseq.all_dot_brackets:\n            dbns = self.__generate_dot_bracket_per_strand(dot_bracket.structure)", "        members = list(self.bpseq.all_dot_brackets)\n        for dot_bracket in members:\n            dbns = self.__generate_dot_bracket_per_strand(dot_bracket.structure)", kind="silent"))

# ---- round 4: W4 and its sub-workers (C06/C14, C17, C18, C19, C20), one file each
from mutants_r4_w4 import E as _R4_W4  # noqa: E402
from mutants_r4_w4_c17 import E as _R4_W4_C17  # noqa: E402
from mutants_r4_w4_c18 import E as _R4_W4_C18  # noqa: E402
from mutants_r4_w4_c19 import E as _R4_W4_C19  # noqa: E402
from mutants_r4_w4_c20 import E as _R4_W4_C20  # noqa: E402

for _e in (_R4_W4, _R4_W4_C17, _R4_W4_C18, _R4_W4_C19, _R4_W4_C20):
    MUTANTS.extend(_e)

# ---- round 5: W4 and its sub-workers
from mutants_r5_w4 import E as _R5_W4  # noqa: E402
from mutants_r5_w4_c17 import E as _R5_W4_C17  # noqa: E402
from mutants_r5_w4_c18 import E as _R5_W4_C18  # noqa: E402
from mutants_r5_w4_c20 import E as _R5_W4_C20  # noqa: E402

for _e in (_R5_W4, _R5_W4_C17, _R5_W4_C18, _R5_W4_C20):
    MUTANTS.extend(_e)

# ---- round 6: W4 and its sub-workers
from mutants_r6_w4 import E as _R6_W4  # noqa: E402
from mutants_r6_w4_c17 import E as _R6_W4_C17  # noqa: E402
from mutants_r6_w4_c18 import E as _R6_W4_C18  # noqa: E402
from mutants_r6_w4_c19 import E as _R6_W4_C19  # noqa: E402
from mutants_r6_w4_c20 import E as _R6_W4_C20  # noqa: E402

for _e in (_R6_W4, _R6_W4_C17, _R6_W4_C18, _R6_W4_C19, _R6_W4_C20):
    MUTANTS.extend(_e)

# ---- round 7: W4 and its sub-workers
from mutants_r7_w4 import E as _R7_W4  # noqa: E402
from mutants_r7_w4_c17 import E as _R7_W4_C17  # noqa: E402
from mutants_r7_w4_c18 import E as _R7_W4_C18  # noqa: E402
from mutants_r7_w4_c20 import E as _R7_W4_C20  # noqa: E402

for _e in (_R7_W4, _R7_W4_C17, _R7_W4_C18, _R7_W4_C20):
    MUTANTS.extend(_e)

# ---- round 3: C17 (W4-c17)
# fact-level rules of checks/c17e.py (find_clashes / main evaluated on input-class representatives) on top of the stored
# round-3 refactors C17-r3 (find_clashes restructured) and C17-r4 (radius table, group_clashes helper, report with .items())
B17R3 = dict(base="C17-r3")
B17R4 = dict(base="C17-r4")
A(M("c17e-r3-autoclash-wired", "C17", CF, "skip_autoclashes = ignore_autoclashes is True", "skip_autoclashes = require_same_atom_name is True", "option-filter", **B17R3))
A(M("c17e-r3-merged-filter-and", "C17", CF, "if (skip_autoclashes and ri == rj) or (same_name_only and ai.name != aj.name):", "if (skip_autoclashes and ri == rj) and (same_name_only and ai.name != aj.name):", "option-filter", **B17R3))
A(M("c17e-r3-radii-first-atom", "C17", CF, "sum_vdw_radii = radii[ai.name[0]] + radii[aj.name[0]]", "sum_vdw_radii = radii[ai.name[0]] + radii[ai.name[0]]", "distance-threshold", **B17R3))
A(M("c17e-r3-search-radius", "C17", CF, "search_radius = 2.0 * max(radii.values()) + molprobity_factor", "search_radius = 2.0 * max(radii.values())", "search-radius", **B17R3))
A(M("c17e-r3-occupancy-helper-falsy", "C17", CF, "    if atom.occupancy is None:\n        return 1.0", "    if not atom.occupancy:\n        return 1.0", ["occupancy-rule", "occupancy-sum"], **B17R3))
A(M("c17e-r3-take-all-flipped", "C17", CF, "take_all = nucleic_acid_only is False", "take_all = nucleic_acid_only is True", "collection", **B17R3))
A(M("c17e-r3-kdtree-other-order", "C17", CF, "KDTree([atom.coordinates for _, atom in candidates])", "KDTree([atom.coordinates for _, atom in reversed(candidates)])", ["pair-roles", "clash-definition", "distance-threshold"], **B17R3))
A(M("c17e-r3-extra-filter-names", "C17", CF, "        distance = np.linalg.norm(ai.coordinates - aj.coordinates)\n", "        if ai.name == \"O3'\" and aj.name == \"P\":\n            continue\n        distance = np.linalg.norm(ai.coordinates - aj.coordinates)\n", "option-extra-filter", **B17R3))
A(M("c17e-r3-early-return-3", "C17", CF, "if len(candidates) < 2:", "if len(candidates) < 3:", "clash-definition", **B17R3))
A(M("c17e-r3-molprobity-per-atom", "C17", CF, "if distance > sum_vdw_radii + molprobity_factor:", "if distance > sum_vdw_radii + 2 * molprobity_factor:", "distance-threshold", **B17R3))
A(M("c17e-r3-demorgan-silent", "C17", CF, "if not (take_all or (take_nucleotides and residue.is_nucleotide)):", "if not take_all and not (take_nucleotides and residue.is_nucleotide):", kind="silent", **B17R3))
A(M("c17e-r3-le-silent", "C17", CF, "if distance > sum_vdw_radii + molprobity_factor:", "if not distance <= sum_vdw_radii + molprobity_factor:", kind="silent", **B17R3))
A(M("c17e-r3-stored-keep-silent", "C17", CF, "        if any_occupancy or math.isclose(sum_occupancies, 1.0):\n", "        keep = any_occupancy or math.isclose(sum_occupancies, 1.0)\n        if keep:\n", kind="silent", **B17R3))
A(M("c17e-r3-mathdist-silent", "C17", CF, "distance = np.linalg.norm(ai.coordinates - aj.coordinates)", "distance = math.dist(ai.coordinates, aj.coordinates)", kind="silent", **B17R3))
A(M("c17e-r4-key-sorted", "C17", CF, "        residue_key = (ri, rj)\n\n        residue_pairs", "        residue_key = tuple(sorted((ri, rj)))\n\n        residue_pairs", "report-grouping", **B17R4))
A(M("c17e-r4-chain-max-last", "C17", CF, "        max_occupancy_chains[chain_key] = max(\n            max_occupancy_chains.get(chain_key, 0.0), occupancy\n        )\n", "        max_occupancy_chains[chain_key] = occupancy\n", "report-maxima", **B17R4))
A(M("c17e-r4-items-unsorted", "C17", CF, "for ai, aj, occupancy in sorted(atom_clashes):", "for ai, aj, occupancy in atom_clashes:", "report-loops", **B17R4))
A(M("c17e-r4-radius-table-hole", "C17", CF, "    \"P\": PHOSPHORUS_RADIUS,\n}", "}", "atom-types", **B17R4))
A(M("c17e-r4-csv-swapped-atoms", "C17", CF, "f\"{ri} {ai.name}\",\n                                    f\"{rj} {aj.name}\",", "f\"{ri} {aj.name}\",\n                                    f\"{rj} {ai.name}\",", "report-grouping", **B17R4))
A(M("c17e-r4-overwrite-records", "C17", CF, "residue_pairs.setdefault(residue_key, set()).add((ai, aj, occupancy))", "residue_pairs[residue_key] = {(ai, aj, occupancy)}", "report-clashes", **B17R4))
A(M("c17e-r4-if-max-silent", "C17", CF, "        max_occupancy_residues[residue_key] = max(\n            max_occupancy_residues.get(residue_key, 0.0), occupancy\n        )\n", "        if residue_key not in max_occupancy_residues or occupancy > max_occupancy_residues[residue_key]:\n            max_occupancy_residues[residue_key] = occupancy\n", kind="silent", **B17R4))
A(M("c17e-r4-normalised-both-silent", "C17", CF, "        chain_key = (ri.chain, rj.chain)\n        residue_key = (ri, rj)\n\n        residue_pairs", "        if rj < ri:\n            ri, ai, rj, aj = rj, aj, ri, ai\n        chain_key = (ri.chain, rj.chain)\n        residue_key = (ri, rj)\n\n        residue_pairs", kind="silent", **B17R4))
A(M("c17e-print-swapped-atoms", "C17", CF, "f\"        Clashes found between atoms {ai.name} and {aj.name} with occupancy sum of {occupancy}\"", "f\"        Clashes found between atoms {aj.name} and {ai.name} with occupancy sum of {occupancy}\"", "report-grouping"))
A(M("c17e-residue-max-wrong-key", "C17", CF, "max_occupancy_residues[(ri, rj)] = max(\n                [max_occupancy_residues.get((ri, rj), 0.0), occupancy]", "max_occupancy_residues[(ri, rj)] = max(\n                [max_occupancy_residues.get((rj, ri), 0.0), occupancy]", ["accumulator", "report-maxima"]))
A(M("c17e-keyword-call-silent", "C17", CF, "if ignore_occupancy is True or math.isclose(sum_occupancies, 1.0):", "if ignore_occupancy is True or math.isclose(sum_occupancies, 1.0, rel_tol=1e-09):", kind="silent"))
A(M("c14-matches-set-again", ["C14"], TT, "            matches = defaultdict(list)\n\n            for base_pair in canonical:\n                for residue in (base_pair.nt1_3d, base_pair.nt2_3d):\n                    if base_pair not in matches[residue]:\n                        matches[residue].append(base_pair)\n", "            matches = defaultdict(set)\n\n            for base_pair in canonical:\n                matches[base_pair.nt1_3d].add(base_pair)\n                matches[base_pair.nt2_3d].add(base_pair)\n", "order-taint"))
A(M("c14-dead-twin-list-silent", ["C14", "C06"], TT, "            matches = defaultdict(set)\n\n            for base_pair in canonical:\n                matches[base_pair.nt1_3d].add(base_pair)\n                matches[base_pair.nt2_3d].add(base_pair)\n", "            matches = defaultdict(list)\n\n            for base_pair in canonical:\n                for residue in (base_pair.nt1_3d, base_pair.nt2_3d):\n                    if base_pair not in matches[residue]:\n                        matches[residue].append(base_pair)\n", kind="silent"))

# ---- round 3: C19 (W4-c19)
# fact-level rules of checks/c19e.py (the import / the matchers evaluated in the abstract world of sa/world.py) and module-level tables
# folded in the same world as the function body (Folder/BlockEval world=); bases: C19-r3 (tables + guard clause + __members__.get),
# C19-r4 (dispatch table of constructors / lambdas, tuple unpacking, next(generator), De Morgan, extend(generator)), C19-f (table built by a
# comprehension over the Enum class)
B193 = dict(base="C19-r3")
B194 = dict(base="C19-r4")
B19F = dict(base="C19-f")
A(M("c19-r3-stack-table-swap", "C19", AD, '    "s35": StackingTopology.outward,', '    "s35": StackingTopology.inward,', "normaliser-eval", **B193))
A(M("c19-r3-edge-case", "C19", AD, "{edge1.upper()}{edge2.upper()}", "{edge1.upper()}{edge2}", "normaliser-eval", **B193))
A(M("c19-r3-guard-and", "C19", AD, 'if len(fr3d_name) != 3 or fr3d_name[0].lower() not in ("c", "t"):', 'if len(fr3d_name) != 3 and fr3d_name[0].lower() not in ("c", "t"):', "normaliser-eval", **B193))
A(M("c19-r3-members-value", "C19", AD, "lw = LeontisWesthof.__members__.get(lw_format)", "lw = LeontisWesthof.__members__.get(lw_format.lower())", "normaliser-eval", **B193))
A(M("c19-r3-table-pairs-silent", "C19", AD, '_FR3D_STACKINGS = {\n    "s33": StackingTopology.downward,\n    "s55": StackingTopology.upward,\n    "s35": StackingTopology.outward,\n    "s53": StackingTopology.inward,\n}', '_FR3D_STACKINGS = {\n    f"s{faces}": topology\n    for faces, topology in zip(\n        ("33", "55", "35", "53"),\n        (StackingTopology.downward, StackingTopology.upward, StackingTopology.outward, StackingTopology.inward),\n    )\n}', kind="silent", **B193))
A(M("c19-r3-table-byname-silent", "C19", AD, '_FR3D_STACKINGS = {\n    "s33": StackingTopology.downward,\n    "s55": StackingTopology.upward,\n    "s35": StackingTopology.outward,\n    "s53": StackingTopology.inward,\n}', '_FR3D_STACKINGS = {\n    label: StackingTopology[name]\n    for label, name in (("s33", "downward"), ("s55", "upward"), ("s35", "outward"), ("s53", "inward"))\n}', kind="silent", **B193))
# table over the Enum class: the stored bug C19-f repaired (silent), rebuilt with itertools.product over per-letter variants (silent / firing)
A(M("c19-f-table-fixed-silent", "C19", AD, '    f"{lw.name[0]}{edge1}{edge2}": lw\n    for lw in LeontisWesthof\n', '    f"{kind}{edge1}{edge2}": lw\n    for lw in LeontisWesthof\n    for kind in (lw.name[0], lw.name[0].upper())\n', kind="silent", **B19F))
A(M("c19-f-table-product-silent", "C19", AD, None, None, kind="silent", edits=[("from enum import Enum\n", "import itertools\nfrom enum import Enum\n"), ('    f"{lw.name[0]}{edge1}{edge2}": lw\n    for lw in LeontisWesthof\n    for edge1 in (lw.name[1], lw.name[1].lower())\n    for edge2 in (lw.name[2], lw.name[2].lower())\n', '    "".join(letters): lw\n    for lw in LeontisWesthof\n    for letters in itertools.product(*[(ch, ch.swapcase()) for ch in lw.name])\n')], **B19F))
A(M("c19-f-table-product-edge", "C19", AD, None, None, "normaliser-eval", edits=[("from enum import Enum\n", "from itertools import product\nfrom enum import Enum\n"), ('    f"{lw.name[0]}{edge1}{edge2}": lw\n    for lw in LeontisWesthof\n    for edge1 in (lw.name[1], lw.name[1].lower())\n    for edge2 in (lw.name[2], lw.name[2].lower())\n', '    "".join(letters): lw\n    for lw in LeontisWesthof\n    for letters in product((lw.name[0], lw.name[0].upper()), (lw.name[1], lw.name[1].lower()), lw.name[2])\n')], **B19F))
A(M("c19-f-table-value-key-silent", "C19", AD, '    f"{lw.name[0]}{edge1}{edge2}": lw\n    for lw in LeontisWesthof\n', '    f"{kind}{edge1}{edge2}": lw\n    for lw in LeontisWesthof\n    for kind in (lw.value[0], lw.name[0].upper())\n', kind="silent", **B19F))  # value == name for every Leontis-Westhof member
A(M("c19-f-table-lower-only", "C19", AD, '    f"{lw.name[0]}{edge1}{edge2}": lw\n    for lw in LeontisWesthof\n', '    f"{kind}{edge1}{edge2}".lower(): lw\n    for lw in LeontisWesthof\n    for kind in (lw.name[0], lw.name[0].upper())\n', "normaliser-eval", **B19F))
# dispatch table of constructors (C19-r4)
A(M("c19-r4-builder-class", "C19", AD, '    "stacking": ("stackings", Stacking),', '    "stacking": ("stackings", BaseRibose),', "dispatch-branch", **B194))
A(M("c19-r4-builder-key", "C19", AD, '    "base-ribose": ("base_ribose_interactions", BaseRibose),', '    "base-ribose": ("base_phosphate_interactions", BaseRibose),', "result-fields", **B194))
A(M("c19-r4-builder-missing", "C19", AD, '    "other": ("other_interactions", lambda nt1, nt2, _: OtherInteraction(nt1, nt2)),\n', "", "dispatch-exhaustive", **B194))
A(M("c19-r4-builder-saenger", "C19", AD, "lambda nt1, nt2, lw: BasePair(nt1, nt2, lw, None)", "lambda nt1, nt2, lw: BasePair(nt1, nt2, None, lw)", "dispatch-branch", **B194))
A(M("c19-r4-builder-swap", "C19", AD, "lambda nt1, nt2, lw: BasePair(nt1, nt2, lw, None)", "lambda nt1, nt2, lw: BasePair(nt2, nt1, lw, None)", "line-fields", **B194))
A(M("c19-r4-unpack-swap", "C19", AD, "nt1, interaction_type, nt2 = parts[:3]", "nt2, interaction_type, nt1 = parts[:3]", "line-fields", **B194))
A(M("c19-r4-unpack-all", "C19", AD, "nt1, interaction_type, nt2 = parts[:3]", "nt1, interaction_type, nt2 = parts", ["line-fields", "fr3d-total"], **B194))
A(M("c19-r4-key-typo", "C19", AD, '    "stacking": ("stackings", Stacking),', '    "stacking": ("stacking", Stacking),', ["fr3d-total", "result-fields"], **B194))
A(M("c19-r4-narrow-handler", "C19", AD, "    except (ValueError, IndexError) as e:", "    except ValueError as e:", "fr3d-total", **B194))
A(M("c19-r4-get-entry-silent", "C19", AD, "        if interaction_category in _INTERACTION_BUILDERS:\n            key, build = _INTERACTION_BUILDERS[interaction_category]\n", "        entry = _INTERACTION_BUILDERS.get(interaction_category)\n        if entry is not None:\n            key, build = entry\n", kind="silent", **B194))
A(M("c19-r4-keyword-ctor-silent", "C19", AD, "lambda nt1, nt2, lw: BasePair(nt1, nt2, lw, None)", "lambda nt1, nt2, lw: BasePair(nt1=nt1, nt2=nt2, lw=lw, saenger=None)", kind="silent", **B194))
# DSSR name matching (C19-r4: guard clause + next(generator, None))
A(M("c19-r4-name-startswith", "C19", AD, "if r.full_name == name", "if r.full_name.startswith(name)", "dssr-name", **B194))
A(M("c19-r4-name-first-part", "C19", AD, 'name = nt_id.split(":")[-1]', 'name = nt_id.split(":")[0]', "dssr-name", **B194))
A(M("c19-r4-name-none-last", "C19", AD, "    if found is None:\n        logging.warning(f\"Failed to find residue {name}\")\n    return found", "    if found is None:\n        logging.warning(f\"Failed to find residue {name}\")\n        return structure3d.residues[-1]\n    return found", ["dssr-name", "dssr-eval"], **B194))
A(M("c19-r4-name-rsplit-silent", "C19", AD, 'name = nt_id.split(":")[-1]', 'name = nt_id.rsplit(":", 1)[-1]', kind="silent", **B194))
A(M("c19-r4-stack-filter-first", "C19", AD, "            if nt1 is not None and nt2 is not None\n", "            if nt1 is not None\n", "dssr-eval", **B194))
# the same facts on the clean tree: line loop, line ends, matchers
A(M("c19-comment-processed", "C19", AD, '            if not line or line.startswith("#"):', "            if not line:", "fr3d-lines"))
A(M("c19-rstrip-newline", "C19", AD, "            line = line.strip()\n", '            line = line.rstrip("\\n")\n', "line-fields"))
A(M("c19-break-on-bad-line", "C19", AD, "            _process_interaction_line(line, interactions_data)\n", "            if not _process_interaction_line(line, interactions_data):\n                break\n", "fr3d-lines"))
A(M("c19-read-splitlines-silent", "C19", AD, "        for line in f:\n", "        for line in f.read().splitlines():\n", kind="silent"))
A(M("c19-icode-truthy-silent", "C19", AD, 'icode = fields[7] if len(fields) >= 8 and fields[7] != "" else None', "icode = fields[7] if len(fields) > 7 and fields[7] else None", kind="silent"))
A(M("c19-number-default", "C19", AD, "auth = ResidueAuth(fields[2], int(fields[4]), icode, fields[3])", "auth = ResidueAuth(fields[2], int(fields[4]) if len(fields) > 4 else 0, icode, fields[3])", "unit-id"))
A(M("c19-lw-get-silent", "C19", AD, "return LeontisWesthof[lw] if lw in LeontisWesthof.__members__ else None", "return LeontisWesthof.__members__.get(lw) if lw is not None else None", kind="silent"))
A(M("c19-lw-not-none-guard", "C19", AD, "return LeontisWesthof[lw] if lw in LeontisWesthof.__members__ else None", "return LeontisWesthof[lw] if lw is not None else None", "guard-exact"))
A(M("c19-lw-by-value-silent", "C19", AD, "return LeontisWesthof[lw] if lw in LeontisWesthof.__members__ else None", "return LeontisWesthof(lw) if lw in LeontisWesthof.__members__ else None", kind="silent"))  # value == name for every Leontis-Westhof member: the value lookup of a member name is that member
A(M("c19-br-by-value", "C19", AD, 'return ("base-ribose", BR[br_type])', 'return ("base-ribose", BR(br_type))', "normaliser-eval"))  # BR._3.value is "3BR": the value lookup of "_3" raises ValueError, the handler turns the line into "other"
# statement kinds / idioms the fragment evaluator reads since round 3: match-case, walrus in a test, defaultdict(list), a nested helper
A(M("c19-match-dispatch-silent", "C19", AD, '        if interaction_category == "base-pair":\n            interactions_data["base_pairs"].append(\n                BasePair(nt1_residue, nt2_residue, classification, None)\n            )\n        elif interaction_category == "stacking":\n            interactions_data["stackings"].append(\n                Stacking(nt1_residue, nt2_residue, classification)\n            )\n        elif interaction_category == "base-ribose":\n            interactions_data["base_ribose_interactions"].append(\n                BaseRibose(nt1_residue, nt2_residue, classification)\n            )\n        elif interaction_category == "base-phosphate":\n            interactions_data["base_phosphate_interactions"].append(\n                BasePhosphate(nt1_residue, nt2_residue, classification)\n            )\n        elif interaction_category == "other":\n            interactions_data["other_interactions"].append(\n                OtherInteraction(nt1_residue, nt2_residue)\n            )\n', '        match interaction_category:\n            case "base-pair":\n                interactions_data["base_pairs"].append(BasePair(nt1_residue, nt2_residue, classification, None))\n            case "stacking":\n                interactions_data["stackings"].append(Stacking(nt1_residue, nt2_residue, classification))\n            case "base-ribose":\n                interactions_data["base_ribose_interactions"].append(BaseRibose(nt1_residue, nt2_residue, classification))\n            case "base-phosphate":\n                interactions_data["base_phosphate_interactions"].append(BasePhosphate(nt1_residue, nt2_residue, classification))\n            case "other":\n                interactions_data["other_interactions"].append(OtherInteraction(nt1_residue, nt2_residue))\n', kind="silent"))
A(M("c19-match-dispatch-no-other", "C19", AD, '        if interaction_category == "base-pair":\n            interactions_data["base_pairs"].append(\n                BasePair(nt1_residue, nt2_residue, classification, None)\n            )\n        elif interaction_category == "stacking":\n            interactions_data["stackings"].append(\n                Stacking(nt1_residue, nt2_residue, classification)\n            )\n        elif interaction_category == "base-ribose":\n            interactions_data["base_ribose_interactions"].append(\n                BaseRibose(nt1_residue, nt2_residue, classification)\n            )\n        elif interaction_category == "base-phosphate":\n            interactions_data["base_phosphate_interactions"].append(\n                BasePhosphate(nt1_residue, nt2_residue, classification)\n            )\n        elif interaction_category == "other":\n            interactions_data["other_interactions"].append(\n                OtherInteraction(nt1_residue, nt2_residue)\n            )\n', '        match interaction_category:\n            case "base-pair":\n                interactions_data["base_pairs"].append(BasePair(nt1_residue, nt2_residue, classification, None))\n            case "stacking":\n                interactions_data["stackings"].append(Stacking(nt1_residue, nt2_residue, classification))\n            case "base-ribose":\n                interactions_data["base_ribose_interactions"].append(BaseRibose(nt1_residue, nt2_residue, classification))\n            case "base-phosphate":\n                interactions_data["base_phosphate_interactions"].append(BasePhosphate(nt1_residue, nt2_residue, classification))\n', "dispatch-exhaustive"))
A(M("c19-r4-walrus-entry-silent", "C19", AD, "        if interaction_category in _INTERACTION_BUILDERS:\n            key, build = _INTERACTION_BUILDERS[interaction_category]\n", "        if (entry := _INTERACTION_BUILDERS.get(interaction_category)) is not None:\n            key, build = entry\n", kind="silent", **B194))
A(M("c19-defaultdict-silent", "C19", AD, None, None, kind="silent", edits=[("from enum import Enum\n", "from collections import defaultdict\nfrom enum import Enum\n"), ('    interactions_data = {\n        "base_pairs": [],\n        "stackings": [],\n        "base_ribose_interactions": [],\n        "base_phosphate_interactions": [],\n        "other_interactions": [],\n    }\n', "    interactions_data = defaultdict(list)\n")]))
A(M("c19-nested-keep-silent", "C19", AD, None, None, kind="silent", edits=[("    # Process the concatenated file\n", "    def keep(text):\n        return bool(text) and not text.startswith(\"#\")\n\n    # Process the concatenated file\n"), ('            if not line or line.startswith("#"):\n', "            if not keep(line):\n")]))
A(M("c19-nested-keep-comments", "C19", AD, None, None, "fr3d-lines", edits=[("    # Process the concatenated file\n", "    def keep(text):\n        return bool(text) or not text.startswith(\"#\")\n\n    # Process the concatenated file\n"), ('            if not line or line.startswith("#"):\n', "            if not keep(line):\n")]))
A(M("c19-unit-star-unpack-silent", "C19", AD, "    auth = ResidueAuth(fields[2], int(fields[4]), icode, fields[3])", "    _pdb, _model, chain, name, number, *_rest = fields\n    auth = ResidueAuth(chain, int(number), icode, name)", kind="silent"))
A(M("c19-unit-star-unpack-short", "C19", AD, "    auth = ResidueAuth(fields[2], int(fields[4]), icode, fields[3])", "    _pdb, chain, name, number, *_rest = fields\n    auth = ResidueAuth(chain, int(number), icode, name)", "unit-id"))

# ---- round 3: C18 (W4-c18)
# fact-level rules of checks/c18e.py + sa/torsion.py: the same breakages on top of the stored refactors C18-r4 (definition list walked
# by a loop, merged helper __chi_around, _normalized module helper, guard clause after the atan2, chi alias + conditional expression)
# and C18-r3 (local helper find_coordinates with early returns, chi definition in (atom, offset) format), and on the clean tree.
B18R4 = dict(base="C18-r4")
B18R3 = dict(base="C18-r3")
A(M("c18e-r4-chi-order", "C18", TT, "definitions = [purine, pyrimidine]", "definitions = [pyrimidine, purine]", "chi-dispatch", **B18R4))
A(M("c18e-r4-chi-no-break", "C18", TT, "            if not math.isnan(torsion):\n                break\n", "", "chi-dispatch", **B18R4))
A(M("c18e-r4-chi-carbon", "C18", TT, 'purine = ("N9", "C4")', 'purine = ("N9", "C8")', "chi-atoms", **B18R4))
A(M("c18e-r4-chi-helper-order", "C18", TT, '("O4\'", "C1\'", nitrogen, carbon)', '("C1\'", "O4\'", nitrogen, carbon)', "chi-atoms", **B18R4))
A(M("c18e-r4-chi-typed-fallback", "C18", TT, "            definitions = [pyrimidine]\n", "            definitions = [pyrimidine, purine]\n", "chi-dispatch", **B18R4))
A(M("c18e-r4-chi-nan-silent", "C18", TT, "        torsion = math.nan\n        for nitrogen, carbon in definitions:", '        torsion = float("nan")\n        for nitrogen, carbon in definitions:', kind="silent", **B18R4))
A(M("c18e-r4-chi-list-silent", "C18", TT, "definitions = [purine, pyrimidine]", "definitions = [purine] + [pyrimidine]", kind="silent", **B18R4))
A(M("c18e-r4-class-degrees", "C18", TT, "is_syn = math.radians(-30) < chi < math.radians(120)", "is_syn = -30 < chi < 120", "chi-class-units", **B18R4))
A(M("c18e-r4-class-swapped", "C18", TT, "return GlycosidicBond.syn if is_syn else GlycosidicBond.anti", "return GlycosidicBond.anti if is_syn else GlycosidicBond.syn", "chi-class-units", **B18R4))
A(M("c18e-r4-class-bound", "C18", TT, "is_syn = math.radians(-30) < chi < math.radians(120)", "is_syn = math.radians(-30) < chi < math.radians(150)", "chi-class-units", **B18R4))
A(M("c18e-r4-class-silent", "C18", TT, "is_syn = math.radians(-30) < chi < math.radians(120)", "is_syn = -30 < math.degrees(chi) < 120", kind="silent", **B18R4))
A(M("c18e-r4-returned-degrees", "C18", TT, "    if math.isnan(angle):\n        return 0.0\n    return angle\n", "    if math.isnan(angle):\n        return 0.0\n    return math.degrees(angle)\n", "torsion-returned", **B18R4))
A(M("c18e-r4-returned-shift", "C18", TT, "    if math.isnan(angle):\n        return 0.0\n    return angle\n", "    if math.isnan(angle):\n        return 0.0\n    if angle < 0:\n        return angle + 2 * math.pi\n    return angle\n", "torsion-returned", **B18R4))
A(M("c18e-r4-returned-silent", "C18", TT, "    if math.isnan(angle):\n        return 0.0\n    return angle\n", "    result = float(angle)\n    if result != result:\n        return 0.0\n    return result\n", kind="silent", **B18R4))
A(M("c18e-r4-t3", "C18", TT, "t3 = v1_norm * numpy.linalg.norm(v2_norm)", "t3 = v3_norm * numpy.linalg.norm(v2_norm)", "torsion-closed-form", **B18R4))
A(M("c18e-r4-helper-foreign-norm", "C18", TT, "    v1_norm, v2_norm, v3_norm = (_normalized(v) for v in (v1, v2, v3))\n", "    v1_norm, v2_norm, v3_norm = (_normalized(v) for v in (v1, v2, v3))\n    v3_norm = v3 / numpy.linalg.norm(v2)\n", "clip-noop", **B18R4))
A(M("c18e-r4-guard-wide", "C18", TT, "if numpy.linalg.norm(t1) < 1e-6 or numpy.linalg.norm(t2) < 1e-6:", "if numpy.linalg.norm(t1) < 0.05 or numpy.linalg.norm(t2) < 1e-6:", "degenerate-guard", **B18R4))
A(M("c18e-r4-guard-demorgan-silent", "C18", TT, "if numpy.linalg.norm(t1) < 1e-6 or numpy.linalg.norm(t2) < 1e-6:", "if not (numpy.linalg.norm(t1) >= 1e-6 and numpy.linalg.norm(t2) >= 1e-6):", kind="silent", **B18R4))
A(M("c18e-r3-offset-sign", "C18", T2, "res_idx = i + offset", "res_idx = i - offset", "backbone-atoms", **B18R3))
A(M("c18e-r3-insert-order", "C18", T2, "coordinates.append(atom.coordinates)", "coordinates.insert(0, atom.coordinates)", ["backbone-atoms", "chi-atoms"], **B18R3))
A(M("c18e-r3-missing-skipped", "C18", T2, "                atom = segment[res_idx].find_atom(atom_name)\n                if atom is None:\n                    return None\n", "                atom = segment[res_idx].find_atom(atom_name) or segment[i].find_atom(atom_name)\n                if atom is None:\n                    return None\n", "backbone-atoms", **B18R3))
A(M("c18e-r3-chi-def", "C18", T2, 'chi_def = [("O4\'", 0), ("C1\'", 0), ("N9", 0), ("C4", 0)]', 'chi_def = [("O4\'", 0), ("C1\'", 0), ("N9", 0), ("C8", 0)]', "chi-atoms", **B18R3))
A(M("c18e-r3-chi-offset", "C18", T2, 'chi_def = [("O4\'", 0), ("C1\'", 0), ("N1", 0), ("C2", 0)]', 'chi_def = [("O4\'", 0), ("C1\'", 0), ("N1", 0), ("C2", 1)]', "chi-atoms", **B18R3))
A(M("c18e-r3-bases", "C18", T2, 'purine_bases = ["A", "G", "DA", "DG"]', 'purine_bases = ["A", "G", "DA"]', "chi-bases", **B18R3))
A(M("c18e-r3-bases-swapped", "C18", T2, "                if residue.residue_name in purine_bases:\n                    chi_def", "                if residue.residue_name in pyrimidine_bases:\n                    chi_def", ["chi-bases", "chi-atoms"], **B18R3))
A(M("c18e-r3-range-le-silent", "C18", T2, "if not 0 <= res_idx < len(segment):", "if not (0 <= res_idx and res_idx <= len(segment) - 1):", kind="silent", **B18R3))
A(M("c18e-r3-call-silent", "C18", T2, "calculate_torsion_angle(*coordinates)\n                        if coordinates is not None", "calculate_torsion_angle(coordinates[0], coordinates[1], coordinates[2], coordinates[3])\n                        if coordinates is not None", kind="silent", **B18R3))
# the same rules on the clean tree (pinned shape): thresholds folded through np.sin / arcsin / degrees, sines of bond angles, De Morgan
A(M("c18e-guard-sine-wide", "C18", T2, "if n1_norm < 1e-6 or n2_norm < 1e-6:", "if n1_norm < 0.05 * np.linalg.norm(v1) * np.linalg.norm(v2) or n2_norm < 1e-6:", "degenerate-guard"))
A(M("c18e-guard-sin-of-degrees", "C18", T2, "if n1_norm < 1e-6 or n2_norm < 1e-6:", "if n1_norm <= np.sin(0.5) * np.linalg.norm(v1) * np.linalg.norm(v2) or n2_norm < 1e-6:", "degenerate-guard"))
A(M("c18e-guard-arcsin-degrees", "C18", T2, "if n1_norm < 1e-6 or n2_norm < 1e-6:", "if np.degrees(np.arcsin(n1_norm / (np.linalg.norm(v1) * np.linalg.norm(v2)))) < 5.0 or n2_norm < 1e-6:", "degenerate-guard"))
A(M("c18e-guard-reversed", "C18", T2, "if n1_norm < 1e-6 or n2_norm < 1e-6:", "if n1_norm > 1e-6 or n2_norm < 1e-6:", "degenerate-guard"))
A(M("c18e-guard-dot", "C18", T2, "if n1_norm < 1e-6 or n2_norm < 1e-6:", "if n1_norm < 1e-6 or n2_norm < 1e-6 or np.linalg.norm(v1 + v2) < 1e-3:", "degenerate-guard"))
A(M("c18e-guard-sine-tiny-silent", "C18", T2, "if n1_norm < 1e-6 or n2_norm < 1e-6:", "if n1_norm < np.sin(np.radians(0.01)) * np.linalg.norm(v1) * np.linalg.norm(v2) or n2_norm < 1e-6:", kind="silent"))
A(M("c18e-guard-demorgan-silent", "C18", T2, "if n1_norm < 1e-6 or n2_norm < 1e-6:", "if not (n1_norm >= 1e-6 and n2_norm >= 1e-6):", kind="silent"))
A(M("c18e-guard-and-narrower-silent", "C18", T2, "if n1_norm < 1e-6 or n2_norm < 1e-6:", "if n1_norm < 1e-6 or (n2_norm < 0.5 and 0 <= n2_norm < 1e-6):", kind="silent"))
A(M("c18e-guard-and-wide", "C18", T2, "if n1_norm < 1e-6 or n2_norm < 1e-6:", "if (n1_norm < 0.5 and n2_norm < 0.5) or n2_norm < 1e-6:", "degenerate-guard"))
A(M("c18e-guard-min-silent", "C18", T2, "if n1_norm < 1e-6 or n2_norm < 1e-6:", "if min(n1_norm, n2_norm) < 1e-6:", kind="silent"))
A(M("c18e-v2-returned-degrees", "C18", T2, "    angle = np.arctan2(y, x)\n\n    return angle\n", "    angle = np.arctan2(y, x)\n\n    return np.degrees(angle)\n", "torsion-returned"))
A(M("c18e-v2-returned-silent", "C18", T2, "    angle = np.arctan2(y, x)\n\n    return angle\n", "    return float(np.arctan2(y, x))\n", kind="silent"))
A(M("c18e-returned-guard-silent", "C18", TT, "    return angle if not math.isnan(angle) else 0.0", "    if math.isnan(angle):\n        return 0.0\n    return angle", kind="silent"))
A(M("c18e-v2-epsilon-offset", "C18", T2, '"epsilon": [("C4\'", 0), ("C3\'", 0), ("O3\'", 0), ("P", 1)]', '"epsilon": [("C4\'", 0), ("C3\'", 0), ("O3\'", 0), ("P", 0)]', "backbone-atoms"))
A(M("c18e-v2-call-order", "C18", T2, "                            atoms[0], atoms[1], atoms[2], atoms[3]\n", "                            atoms[0], atoms[2], atoms[1], atoms[3]\n", "backbone-atoms"))
A(M("c18e-v2-bases-extra", "C18", T2, 'pyrimidine_bases = ["C", "U", "T", "DC", "DT"]', 'pyrimidine_bases = ["C", "U", "T", "DC", "DT", "PSU"]', "chi-bases"))
A(M("c18e-v2-chi-c8", "C18", T2, '                        c4 = residue.find_atom("C4")', '                        c4 = residue.find_atom("C8")', "chi-atoms"))
A(M("c18e-chi-fallback-order", "C18", TT, "        torsion = self.__chi_purine()\n        if math.isnan(torsion):\n            return self.__chi_pyrimidine()\n        return torsion", "        torsion = self.__chi_pyrimidine()\n        if math.isnan(torsion):\n            return self.__chi_purine()\n        return torsion", "chi-dispatch"))
A(M("c18e-chi-helper-all-any", "C18", TT, "        if all([atom is not None for atom in atoms]):\n            return torsion_angle(*atoms)  # type: ignore\n        return math.nan\n\n    def __chi_pyrimidine", "        if any([atom is not None for atom in atoms]):\n            return torsion_angle(*atoms)  # type: ignore\n        return math.nan\n\n    def __chi_pyrimidine", ["chi-atoms", "chi-dispatch"]))
A(M("c18e-chi-table-silent", "C18", TT, '        if self.one_letter_name.upper() in ("A", "G"):\n            return self.__chi_purine()\n        elif self.one_letter_name.upper() in ("C", "U", "T"):\n            return self.__chi_pyrimidine()', '        kind = {"A": "pu", "G": "pu", "C": "py", "U": "py", "T": "py"}.get(self.one_letter_name.upper())\n        if kind == "pu":\n            return self.__chi_purine()\n        elif kind == "py":\n            return self.__chi_pyrimidine()', kind="silent"))
A(M("c18e-wrapper-silent", "C18", TT, "    return calculate_torsion_angle_coords(\n        a1.coordinates, a2.coordinates, a3.coordinates, a4.coordinates\n    )", "    points = [atom.coordinates for atom in (a1, a2, a3, a4)]\n    return calculate_torsion_angle_coords(*points)", kind="silent"))
A(M("c18e-wrapper-reversed", "C18", TT, "    return calculate_torsion_angle_coords(\n        a1.coordinates, a2.coordinates, a3.coordinates, a4.coordinates\n    )", "    points = [atom.coordinates for atom in (a1, a3, a2, a4)]\n    return calculate_torsion_angle_coords(*points)", "torsion-wrapper"))
A(M("c18e-unpack-generator-silent", ["C18", "C05"], TT, "    v1_norm = v1 / numpy.linalg.norm(v1) if numpy.linalg.norm(v1) > 1e-6 else v1\n    v2_norm = v2 / numpy.linalg.norm(v2) if numpy.linalg.norm(v2) > 1e-6 else v2\n    v3_norm = v3 / numpy.linalg.norm(v3) if numpy.linalg.norm(v3) > 1e-6 else v3\n", "    v1_norm, v2_norm, v3_norm = (v / numpy.linalg.norm(v) if numpy.linalg.norm(v) > 1e-6 else v for v in (v1, v2, v3))\n", kind="silent"))

# ---- round 3: C20 (W4-c20)
# fact-level rules of checks/c20e.py (whole-function evaluation on stub documents / command lines); bases: C20-r3 (= round-3 ref1:
# copy_from_to with split guards, hoisted look-ups, `continue`, list(rows)), C20-r4 (= ref2: helpers _read_containers / _write_containers,
# if/else over locals in replace_value, boolean dispatch + De Morgan guard + `[0]` in main), C20-e (= bug1, DataCategory API loop)
B20R3 = dict(base="C20-r3")
B20R4 = dict(base="C20-r4")
A(M("c20e-r3-direction", "C20", TR, "            row[target] = row[source]\n", "            row[source] = row[target]\n", "edit-eval", **B20R3))
A(M("c20e-r3-early-empty", "C20", TR, "    if category not in block.getObjNameList():\n        return file_content\n", "    if category not in block.getObjNameList():\n        return \"\"\n", "early-exit-eval", **B20R3))
A(M("c20e-r3-new-item-guard", "C20", TR, "        if target < len(row):\n", "        if target <= len(row):\n", "edit-eval", **B20R3))
A(M("c20e-r3-row-copies", "C20", TR, "    rows = category_obj.getRowList()\n", "    rows = [list(r) for r in category_obj.getRowList()]\n", "edit-eval", **B20R3))
A(M("c20e-r3-hoist-before-append", "C20", TR, "", "", "edit-eval", edits=[("    if copy_to not in attributes:\n        attributes.append(copy_to)\n\n", "    source = attributes.index(copy_from)\n    target = attributes.index(copy_to)\n    if copy_to not in attributes:\n        attributes.append(copy_to)\n\n"), ("    # the list of items does not change any more, so both positions are fixed\n    source = attributes.index(copy_from)\n    target = attributes.index(copy_to)\n", "")], **B20R3))
A(M("c20e-r3-guard-form-silent", "C20", TR, "        if target < len(row):\n", "        if len(row) > target:\n", kind="silent", **B20R3))
A(M("c20e-r3-slice-copy-silent", "C20", TR, "    transformed = list(rows)\n", "    transformed = rows[:]\n", kind="silent", **B20R3))
A(M("c20e-r3-empty-guard-silent", "C20", TR, "    if len(data) == 0:\n        return file_content\n", "    if not data:\n        return file_content\n", kind="silent", **B20R3))
A(M("c20e-r4-first-seen-index", "C20", TR, "            new_value = values[len(mapping)]\n", "            new_value = values[len(mapping) - 1]\n", "edit-eval", **B20R4))
A(M("c20e-r4-helper-no-flush", "C20", TR, "        f.write(file_content)\n        f.seek(0)\n        return adapter.readFile(f.name)\n", "        f.write(file_content)\n        return adapter.readFile(f.name)\n", "edit-eval", **B20R4))
A(M("c20e-r4-helper-flush-silent", "C20", TR, "        f.write(file_content)\n        f.seek(0)\n        return adapter.readFile(f.name)\n", "        f.write(file_content)\n        f.flush()\n        return adapter.readFile(f.name)\n", kind="silent", **B20R4))
A(M("c20e-r4-surplus-kept", "C20", TR, "            new_value = values[len(mapping)]\n", "            new_value = values[len(mapping)] if len(mapping) < len(values) else old_value\n", "mapping-total", **B20R4))
A(M("c20e-r4-surplus-raises-silent", "C20", TR, "            new_value = values[len(mapping)]\n", "            if len(mapping) >= len(values):\n                raise ValueError(\"alphabet exhausted\")\n            new_value = values[len(mapping)]\n", kind="silent", **B20R4))
A(M("c20e-r4-mapping-component", "C20", TR, "            file_content, args.category, args.replace, args.values\n        )[0]\n", "            file_content, args.category, args.replace, args.values\n        )[1]\n", "cli-eval", **B20R4))
A(M("c20e-r4-demorgan-wrong", "C20", TR, "    if not do_copy and not do_replace:\n", "    if not do_copy or not do_replace:\n", "cli-eval", **B20R4))
A(M("c20e-r4-demorgan-silent", "C20", TR, "    if not do_copy and not do_replace:\n", "    if not (do_copy or do_replace):\n", kind="silent", **B20R4))
A(M("c20e-r4-open-before-read", "C20", TR, "", "", ["cli-inplace-eval"], edits=[("    with open(args.input) as f:\n        file_content = f.read()\n", "    out = open(args.output, \"w\")\n    with open(args.input) as f:\n        file_content = f.read()\n"), ("    with open(args.output, \"w\") as f:\n        f.write(output)\n", "    out.write(output)\n    out.close()\n")], **B20R4))
A(M("c20e-r4-unpack-silent", "C20", TR, "        output = replace_value(\n            file_content, args.category, args.replace, args.values\n        )[0]\n", "        output, mapping = replace_value(\n            file_content, args.category, args.replace, args.values\n        )\n", kind="silent", **B20R4))
A(M("c20e-api-default-dot", "C20", TR, "defaultValue=\"?\"", "defaultValue=\".\"", "edit-eval", base="C20-e"))
A(M("c20e-api-getvalue-silent", "C20", TR, "        value = category_obj.getValueOrDefault(copy_from, k, defaultValue=\"?\")\n", "        value = category_obj.getValue(copy_from, k)\n", kind="silent", base="C20-e"))
_C20_READ = "        f.write(file_content)\n        f.seek(0)\n        data = adapter.readFile(f.name)\n"
A(M("c20e-no-flush", "C20", TR, _C20_READ, "        f.write(file_content)\n        data = adapter.readFile(f.name)\n", "edit-eval", count=2))
A(M("c20e-flush-silent", "C20", TR, _C20_READ, "        f.write(file_content)\n        f.flush()\n        data = adapter.readFile(f.name)\n", kind="silent", count=2))
A(M("c20e-read-after-close", "C20", TR, _C20_READ, "        f.write(file_content)\n        f.seek(0)\n    data = adapter.readFile(f.name)\n", "edit-eval", count=2))
A(M("c20e-select-list", "C20", TR, "data = adapter.readFile(f.name)", "data = adapter.readFile(f.name, selectList=[category])", "edit-eval", count=2))
A(M("c20e-first-block-only", "C20", TR, "        adapter.writeFile(f.name, data)\n        f.seek(0)\n        return f.read()\n", "        adapter.writeFile(f.name, data[:1])\n        f.seek(0)\n        return f.read()\n", "edit-eval"))
A(M("c20e-module-cache", "C20", TR, "", "", "repeat-eval", edits=[("def copy_from_to(", "_PARSED = {}\n\n\ndef copy_from_to("), ("    adapter = IoAdapterPy()\n\n    with tempfile.NamedTemporaryFile(mode=\"wt\") as f:\n        f.write(file_content)\n        f.seek(0)\n        data = adapter.readFile(f.name)\n", "    adapter = IoAdapterPy()\n\n    if file_content not in _PARSED:\n        with tempfile.NamedTemporaryFile(mode=\"wt\") as f:\n            f.write(file_content)\n            f.seek(0)\n            _PARSED[file_content] = adapter.readFile(f.name)\n    data = _PARSED[file_content]\n")]))
A(M("c20e-size-guard", "C20", TR, "    transformed = []\n\n    if copy_to not in", "    if len(category_obj.getRowList()) > 1000:\n        return file_content\n\n    transformed = []\n\n    if copy_to not in", "eval-coverage", kind="unrecognised"))
A(M("c20e-null-to-unknown", "C20", TR, "            row[j] = row[i]\n", "            row[j] = row[i] if row[i] != \".\" else \"?\"\n", "edit-eval"))
A(M("c20e-append-mode", "C20", TR, "open(args.output, \"w\")", "open(args.output, \"a\")", "cli-eval"))
A(M("c20e-double-write", "C20", TR, "        f.write(output)\n", "        f.write(output)\n        f.write(\"\\n\")\n", "cli-eval"))
A(M("c20e-category-dropped", "C20", TR, "            file_content, args.category, args.copy_from, args.copy_to\n", "            file_content, \"atom_site\", args.copy_from, args.copy_to\n", "cli-eval"))
A(M("c20e-pathlib-silent", "C20", TR, "", "", kind="silent", edits=[("import argparse\n", "import argparse\nfrom pathlib import Path\n"), ("    with open(args.input) as f:\n        file_content = f.read()\n", "    file_content = Path(args.input).read_text()\n"), ("    with open(args.output, \"w\") as f:\n        f.write(output)\n", "    Path(args.output).write_text(output)\n")]))
A(M("c20e-atomic-replace-silent", "C20", TR, "", "", kind="silent", edits=[("import argparse\n", "import argparse\nimport os\n"), ("    with open(args.output, \"w\") as f:\n        f.write(output)\n", "    with open(args.output + \".tmp\", \"w\") as f:\n        f.write(output)\n    os.replace(args.output + \".tmp\", args.output)\n")]))
A(M("c20e-eafp-silent", "C20", TR, "    if copy_from not in attributes:\n        return file_content\n", "    try:\n        attributes.index(copy_from)\n    except ValueError:\n        return file_content\n", kind="silent"))
A(M("c20e-usage-error-silent", "C20", TR, "        parser.print_help()\n        return\n", "        parser.error(\"nothing to do: give --copy-from/--copy-to or --replace/--values\")\n", kind="silent"))
A(M("c20e-output-stripped", "C20", TR, "        f.write(output)\n", "        f.write(output.strip())\n", "cli-eval"))
A(M("c20e-content-stripped", "C20", TR, "        file_content = f.read()\n", "        file_content = f.read().strip()\n", "cli-eval"))
A(M("c20e-early-exit-stripped", "C20", TR, "    if column not in attributes:\n        return file_content, {}\n", "    if column not in attributes:\n        return file_content.strip(), {}\n", "early-exit-eval"))
A(M("c20e-single-block-only", "C20", TR, "    if len(data) == 0 or category not in data[0].getObjNameList():\n        return file_content\n", "    if len(data) != 1 or category not in data[0].getObjNameList():\n        return file_content\n", "edit-eval"))
A(M("c20e-last-block", "C20", TR, "    if len(data) == 0 or category not in data[0].getObjNameList():\n        return file_content, {}\n", "    if len(data) == 0 or category not in data[-1].getObjNameList():\n        return file_content, {}\n", "edit-eval"))
A(M("c20e-binary-read", "C20", TR, "    with open(args.input) as f:\n", "    with open(args.input, \"rb\") as f:\n", "cli-eval"))
A(M("c20e-iterator-alphabet-silent", "C20", TR, "", "", kind="silent", edits=[("    mapping = {}\n", "    mapping = {}\n    symbols = iter(values)\n"), ("            mapping[row[i]] = values[len(mapping)]", "            mapping[row[i]] = next(symbols)")]))
A(M("c20e-iterator-alphabet-cycle", "C20", TR, "", "", "mapping-total", edits=[("    mapping = {}\n", "    mapping = {}\n    symbols = iter(values)\n"), ("            mapping[row[i]] = values[len(mapping)]", "            mapping[row[i]] = next(symbols, values[-1])")]))
A(M("c20e-main-helper-silent", "C20", TR, "", "", kind="silent", edits=[("def main():\n    parser = argparse.ArgumentParser()", "def _read_text(path):\n    with open(path) as handle:\n        return handle.read()\n\n\ndef main(argv=None):\n    parser = argparse.ArgumentParser()"), ("    args = parser.parse_args()\n\n    with open(args.input) as f:\n        file_content = f.read()\n", "    args = parser.parse_args(argv)\n    file_content = _read_text(args.input)\n")]))
A(M("c20e-getobj-none-silent", "C20", TR, "    if len(data) == 0 or category not in data[0].getObjNameList():\n        return file_content\n\n    category_obj = data[0].getObj(category)\n", "    if not data:\n        return file_content\n    category_obj = data[0].getObj(category)\n    if category_obj is None:\n        return file_content\n", kind="silent"))
# fallback (a function the evaluator cannot read - here a class instantiated inside it - is decided by the pinned forms)
A(M("c20e-fallback-private-copy", "C20", TR, "", "", "edit-reaches-output", edits=[("def replace_value(", "class _Probe:\n    pass\n\n\ndef replace_value("), ("    attributes = category_obj.getAttributeList()\n\n    if copy_from", "    attributes = list(category_obj.getAttributeList())\n    _Probe()\n\n    if copy_from")]))
A(M("c20e-fallback-main-silent", "C20", TR, "", "", kind="silent", edits=[("def main():", "class _Opts:\n    pass\n\n\ndef main():"), ("    args = parser.parse_args()\n", "    args = parser.parse_args()\n    opts = _Opts()\n")]))
A(M("c20e-itertools-silent", "C20", TR, "", "", kind="silent", edits=[("import argparse\n", "import argparse\nimport itertools\n"), ("    for row in category_obj.getRowList():\n        i = attributes.index(column)", "    for _, row in zip(itertools.count(), category_obj.getRowList()):\n        i = attributes.index(column)")]))

# ---------------------------------------------------------------- round 3: fact-level rules of checks/c01e.py
# The encoders of common.py are decided at fact level first (fragments evaluated on every class of a finite input
# partition); the pinned-form rule ids above stay valid for the fallback.  Either id counts.
ALSO = {
    "c01-conflict-convert": ["conflict-graph-fact"],
    "c01-conflict-all": ["conflict-graph-fact"],
    "c01-conflict-fcfs-drop": ["fcfs-first-fit"],
    "c01-fill-offby1": ["fill-stores"],
    "c01-fill-trips": ["fill-stores"],
    "c01-fill-dir": ["fill-stores"],
    "c01-fill-bracket-swap": ["fill-stores", "alphabet-agree"],
    "c01-run-cond": ["stems-run-fact"],
    "c01-fromdb-shift": ["from-db-fact"],
    "c01-fromdb-drop": ["from-db-fact"],
    "c01-fcfs-range": ["fcfs-first-fit"],
    "c01-fcfs-break": ["fcfs-first-fit"],
    "c01-fcfs-avail-hoist": ["fcfs-first-fit"],
    "c01-fcfs-region-swap": ["region-triple", "fcfs-first-fit"],
    "c01-fcfs-region-last": ["region-triple", "fcfs-first-fit"],
    "c13-fcfs-count-false": ["fcfs-first-fit"],
    "c13-fcfs-last-free": ["fcfs-first-fit"],
    "c13-handler-reraise": ["solve-handled"],
    "c13-objective-fmt": ["never-raises"],
    "c13-status-infeasible-only": ["fallback-is-fcfs"],
    "c13-drop-status": ["fallback-is-fcfs"],
    "c02-name-swap": ["milp-one-level"],
    "c02-readback-swap": ["milp-one-level"],
    "c02-graph-oneway": ["conflict-graph-fact"],
    "c02-pairs-short": ["conflict-graph-fact"],
    "c02-length-first": ["milp-objective-coeff"],
    "c16-greedy-range": ["enumeration-fact"],
    "c16-available-small": ["enumeration-fact"],
    "c16-perm-k": ["enumeration-fact"],
    "c16-perm-identity": ["enumeration-fact"],
    "c16-zip": ["enumeration-fact"],
    "c16-pop-early": ["enumeration-fact"],
    "c16-default-missing": ["enumeration-fact"],
    "c16-early-exit": ["enumeration-fact"],
    "c16-mark-wrong": ["enumeration-fact"],
    "c12-isolated-3p": ["isolated-select"],
    "c01-pop0": ["decoder-fact"],
    "c12-isolated-guard": ["isolated-select"],
}
for _m in MUTANTS:
    if _m["id"] in ALSO and _m.get("rule") is not None:
        _m["rule"] = ([_m["rule"]] if isinstance(_m["rule"], str) else list(_m["rule"])) + [r for r in ALSO[_m["id"]] if r not in ([_m["rule"]] if isinstance(_m["rule"], str) else _m["rule"])]

# firing mutants on top of the stored round-3 refactors (and silent twins): the fact-level rules decide rewritten code too
import os as _os

_P = _os.path.join(_os.path.dirname(_os.path.abspath(__file__)), "patches")
B14 = dict(base="C01-r4")  # crossing helper + uncached __conflict_graph(regions) + FCFS with a set of taken orders
A(M("c01e-r4-fcfs-range", ["C01", "C13"], C, "                for j in range(i)\n                if BpSeq.__is_pseudoknot(regions[i], regions[j])", "                for j in range(i - 1)\n                if BpSeq.__is_pseudoknot(regions[i], regions[j])", "fcfs-first-fit", **B14))
A(M("c01e-r4-fcfs-levels", ["C01", "C13"], C, 'levels = len("([{<" + string.ascii_uppercase)', "levels = len(string.ascii_uppercase)", "fcfs-levels", **B14))
A(M("c01e-r4-graph-oneway", ["C01", "C02", "C16"], C, "            graph[i].add(j)\n            graph[j].add(i)\n\n        return graph", "            graph[i].add(j)\n\n        return graph", "conflict-graph-fact", **B14))
A(M("c01e-r4-pred-encloses", ["C01", "C13"], C, "        return m < k < n < l\n", "        return m < k < l < n\n", ["fcfs-first-fit", "conflict-graph-fact"], **B14))
A(M("c01e-r4-guard-flip", ["C01", "C02", "C16"], C, "            if not BpSeq.__is_pseudoknot(regions[i], regions[j]):\n                continue", "            if BpSeq.__is_pseudoknot(regions[i], regions[j]):\n                continue", "conflict-graph-fact", **B14))
A(M("c01e-r4-min-silent", ["C01", "C13", "C02", "C16"], C, "next(order for order in range(levels) if order not in taken)", "min(order for order in range(levels) if order not in taken)", kind="silent", **B14))
A(M("c01e-r4-pred-or-silent", ["C01", "C02", "C13", "C16"], C, "        if k < m < l < n:\n            return True\n        return m < k < n < l\n", "        return (m < k < n < l) or (k < m < l < n)\n", kind="silent", **B14))
B13 = dict(base="C01-r3")  # __stems_entries with itertools.groupby over the diagonal key, __regions as a loop
A(M("c01e-r3-diagonal", ["C01", "C16"], C, "return entry.index_ - position, entry.pair + position", "return entry.index_ - position, entry.pair - position", "stems-run-fact", **B13))
A(M("c01e-r3-diagonal-half", ["C01", "C02"], C, "return entry.index_ - position, entry.pair + position", "return entry.index_ - position", "stems-run-fact", **B13))
A(M("c01e-r3-regions-last", ["C01", "C02"], C, "            outermost = stem_entries[0]\n", "            outermost = stem_entries[-1]\n", "region-triple", **B13))
A(M("c01e-r3-source", "C01", C, "enumerate(self.paired(only5to3=True)), key=diagonal", "enumerate(self.paired()), key=diagonal", "stems-source", **B13))
A(M("c01e-r3-diagonal-silent", ["C01", "C02", "C07", "C16"], C, "return entry.index_ - position, entry.pair + position", "return position - entry.index_, position + entry.pair", kind="silent", **B13))
B164 = dict(base="C16-r4")  # greedy colouring with `placed` / `taken` / while-search, product merged into a list
A(M("c16e-r4-placed", ["C16", "C01"], C, "                    orders[region] = order\n                    placed.append(region)\n", "                    orders[region] = order\n", "enumeration-fact", **B164))
A(M("c16e-r4-adjacent-neg", ["C16", "C01"], C, "for other in placed if other in graph[region]", "for other in placed if other not in graph[region]", "enumeration-fact", **B164))
A(M("c16e-r4-while-from-1", "C16", C, "                    order = 0\n                    while order in taken:", "                    order = 1\n                    while order in taken:", "enumeration-fact", **B164))
A(M("c16e-r4-chain-first", "C16", C, "for region, order in itertools.chain.from_iterable(assignment):", "for region, order in assignment[0]:", "enumeration-fact", **B164))
A(M("c16e-r4-count-silent", ["C16", "C01"], C, "                    order = 0\n                    while order in taken:\n                        order += 1\n", "                    order = next(k for k in itertools.count() if k not in taken)\n", kind="silent", **B164))
B163 = dict(base="C16-r3")  # __conflicted / __conflict_graph(enumerate pairs) / __connected_components(visited set, next())
A(M("c16e-r3-pop-always", ["C16", "C01"], C, "                if next_vertex is None:\n                    stack.pop()\n                    continue\n", "                stack.pop()\n                if next_vertex is None:\n                    continue\n", "enumeration-fact", **B163))
A(M("c16e-r3-no-mark", "C16", C, "                visited.add(next_vertex)\n                stack.append(next_vertex)\n", "                stack.append(next_vertex)\n", "enumeration-fact", **B163))
A(M("c16e-r3-keys-silent", ["C16", "C01"], C, "for vertex in list(graph.keys()):", "for vertex in list(graph):", kind="silent", **B163))
B23 = dict(base="C02-r3")  # model built by one dict comprehension, weight() helper, itertools.product constraints
A(M("c02e-r3-weight-flat", "C02", C, "return length if order == 0 else -length * order", "return length if order == 0 else -length", "milp-objective-coeff", **B23))
A(M("c02e-r3-weight-double", "C02", C, "return length if order == 0 else -length * order", "return 2 * length if order == 0 else -length * order", "milp-objective-coeff", **B23))
A(M("c02e-r3-bound", "C02", C, "max_order = max(map(len, graph.values())) + 1", "max_order = max(map(len, graph.values()))", "milp-bound", **B23))
A(M("c02e-r3-one-level-le", "C02", C, "                pulp.lpSum(var_by_region_order[(i, order)] for order in range(max_order))\n                == 1", "                pulp.lpSum(var_by_region_order[(i, order)] for order in range(max_order))\n                <= 1", "milp-one-level", **B23))
A(M("c02e-r3-product-levels", "C02", C, "itertools.product(neighbours, range(max_order))", "itertools.product(neighbours, range(1, max_order))", "milp-adjacency", **B23))
A(M("c02e-r3-continuous", "C02", C, 'pulp.LpVariable(f"x_{i}_{order}", 0, 1, pulp.LpInteger)', 'pulp.LpVariable(f"x_{i}_{order}", 0, 1)', "milp-binary", **B23))
A(M("c02e-r3-scale-silent", "C02", C, "return length if order == 0 else -length * order", "return 2 * length if order == 0 else -2 * length * order", kind="silent", **B23))
A(M("c02e-r3-once-silent", "C02", C, "            for j, order in itertools.product(neighbours, range(max_order)):\n", "            for j, order in itertools.product(neighbours, range(max_order)):\n                if j < i:\n                    continue\n", kind="silent", **B23))
B133 = dict(base="C13-r3")  # guard-clause decode `_, i, order = name.split('_')`, product constraints, conditional-expression objective
A(M("c13e-r3-decode-swap", "C02", C, '_, i, order = variable.getName().split("_")', '_, order, i = variable.getName().split("_")', "milp-readback", **B133))
A(M("c13e-r3-decode-digit", "C02", C, "            orders[int(i)] = int(order)\n", "            orders[int(i)] = int(order[-1])\n", "milp-readback", **B133))
A(M("c13e-r3-continue-flip", ["C02", "C13"], C, "            if variable.varValue != 1:\n                continue\n", "            if variable.varValue == 1:\n                continue\n", ["milp-readback", "returns-dotbracket"], **B133))
B134 = dict(base="C13-r4")  # dot_bracket with a conditional expression + guard clause, fill with `for offset`, FCFS over enumerate(regions[:i])
A(M("c13e-r4-none-guard", "C13", C, "        if solver is None:\n            return self.convert_to_dot_bracket(None)\n        solver.msg = False\n", "        solver.msg = False\n", "solver-none-guard", **B134))
A(M("c13e-r4-fcfs-slice", ["C13", "C01"], C, "for j, (m, n, _) in enumerate(regions[:i])", "for j, (m, n, _) in enumerate(regions[: i - 1])", "fcfs-first-fit", **B134))
A(M("c13e-r4-fill-offset", ["C01", "C13"], C, "structure[k - offset - 1] = closing", "structure[k - offset] = closing", "fill-stores", **B134))
A(M("c13e-r4-skip0-silent", ["C13", "C01"], C, "            if i == 0:\n                continue\n\n", "", kind="silent", **B134))
B124 = dict(base="C12-r4")  # enumerate(sequence, 1), guard-clause __post_init__, two-branch paired(), stems[-1] as the open run, comprehension to_unpair
A(M("c12e-r4-one-end", "C12", C, "            for strand in (stem.strand5p, stem.strand3p)\n", "            for strand in (stem.strand5p,)\n", "isolated-select", **B124))
A(M("c12e-r4-upper", ["C12", "C01"], C, "Entry(number, letter, 0)", "Entry(number, letter.upper(), 0)", ["derived-sequence", "derived-structure", "from-db-fact"], **B124))
A(M("c12e-r4-enumerate-0", ["C01", "C12"], C, "enumerate(dot_bracket.sequence, 1)", "enumerate(dot_bracket.sequence)", ["from-db-fact", "derived-structure"], **B124))
A(M("c12e-r4-pairs-guard", "C01", C, "            if j == 0:\n                continue\n            self.pairs[i] = j", "            if j != 0:\n                continue\n            self.pairs[i] = j", "bpseq-pairs-fact", **B124))
A(M("c12e-r4-pairs-swapped", "C01", C, "            self.pairs[i] = j\n            self.pairs[j] = i\n", "            self.pairs[j] = j\n            self.pairs[i] = i\n", "bpseq-pairs-fact", **B124))
A(M("c12e-r4-pairs-once-silent", "C01", C, "            self.pairs[i] = j\n            self.pairs[j] = i\n", "            self.pairs[i] = j\n", kind="silent", **B124))  # both ends of a pair are entries: each end writes its own key
A(M("c12e-r4-run-extend", ["C01", "C07"], C, "                if i == k + 1 and j == l - 1:\n                    stems[-1].append(entry)", "                if i == k + 1 or j == l - 1:\n                    stems[-1].append(entry)", "stems-run-fact", **B124))
A(M("c12e-r4-len-silent", ["C12", "C01", "C07"], C, "            if stems:\n", "            if len(stems) > 0:\n", kind="silent", **B124))
# call histories: a conflict graph shared through a cached property is fine as long as nobody writes to it (C01-g / C12-e write)
MUTANTS.append(dict(id="c01e-shared-graph-silent", props=["C01", "C02", "C12", "C16"], patch=_os.path.join(_P, "shared-graph-readonly.diff"), kind="silent", rule=None))
# without_isolated: the derived object must be consistent with itself (clean tree)
A(M("c12e-stale-pairs", "C12", C, "        entries = [\n            Entry(entry.index_, entry.sequence, entry.pair) for entry in self.entries\n        ]\n        for i in to_unpair:\n            entries[i].pair = 0\n\n        return BpSeq(entries)", "        result = BpSeq([Entry(entry.index_, entry.sequence, entry.pair) for entry in self.entries])\n        for i in to_unpair:\n            result.entries[i].pair = 0\n        return result", "derived-consistent"))
A(M("c12e-adjacent-pair", "C12", C, "            if stem.strand5p.first == stem.strand5p.last:\n                to_unpair", "            if stem.strand5p.first == stem.strand5p.last and stem.strand3p.first - stem.strand5p.first > 1:\n                to_unpair", "isolated-select"))
# a size cap is outside what the evaluated classes reach: the fact rule must not claim it, the pinned rule decides
A(M("c16e-size-cap", "C16", C, "            for permutation in itertools.permutations(component):\n", "            for permutation in (itertools.permutations(component) if len(component) < 7 else [tuple(component)]):\n", ["greedy-perms", "enumeration-fact"]))
# a consumer outside common.py edits a cached answer in place (C16-g of round 3 is the stored instance; these are the twins)
A(M("c16e-consumer-sorts-list", ["C16", "C12"], "tertiary.py", "        for dot_bracket in self.bpseq.all_dot_brackets:\n", "        alternatives = self.bpseq.all_dot_brackets\n        alternatives.sort(key=lambda db: db.structure)\n        for dot_bracket in alternatives:\n", ["list-handed-out", "foreign-write"]))
A(M("c16e-consumer-copy-silent", ["C16", "C12", "C14"], "tertiary.py", "        for dot_bracket in self.bpseq.all_dot_brackets:\n", "        alternatives = list(self.bpseq.all_dot_brackets)\n        alternatives.reverse()\n        alternatives.reverse()\n        for dot_bracket in alternatives:\n", kind="silent"))

from mutants_r5_w2 import E as _R5_W2  # noqa: E402

MUTANTS.extend(_R5_W2)

from mutants_r6_w2 import E as _R6_W2  # noqa: E402

MUTANTS.extend(_R6_W2)

from mutants_r7_w2 import E as _R7_W2  # noqa: E402

MUTANTS.extend(_R7_W2)
