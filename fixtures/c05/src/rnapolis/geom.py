"""Fixture controls for the invariance typing: bad_* must be reported, ok_* must not."""
import math

import numpy

from rnapolis.tertiary import Atom, Residue3D


def bad_absolute_coordinate(a: Atom, b: Atom):
    v = a.coordinates
    return numpy.linalg.norm(v) < 4.0


def bad_compare_component(a: Atom):
    return a.z > 0


def bad_sort_by_position(r: Residue3D):
    return sorted([(atom.x, atom.y, atom.z) for atom in r.atoms])


def bad_unknown_function(a: Atom, b: Atom, c: Atom):
    pts = numpy.array([a.coordinates, b.coordinates, c.coordinates])
    _, _, vh = numpy.linalg.svd(pts - pts.mean(axis=0))
    return vh[2]


def bad_dot_with_point(a: Atom, b: Atom):
    return numpy.dot(a.coordinates, b.coordinates - a.coordinates) > 0


def ok_distance(a: Atom, b: Atom):
    return numpy.linalg.norm(a.coordinates - b.coordinates) < 4.0


def ok_angle(a: Atom, b: Atom, c: Atom):
    v1 = a.coordinates - b.coordinates
    v2 = c.coordinates - b.coordinates
    return math.degrees(math.acos(numpy.dot(v1, v2) / numpy.linalg.norm(v1) / numpy.linalg.norm(v2))) < 35.0


def ok_key_use(a: Atom):
    m = {}
    xyz = (a.x, a.y, a.z)
    m[xyz] = a
    return m[xyz]
