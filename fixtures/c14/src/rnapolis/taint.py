"""Fixture controls for the iteration-order taint analysis: bad_* must be reported, ok_* must not."""
from collections import defaultdict
from dataclasses import dataclass
from typing import List, Set


@dataclass(frozen=True)
class Item:
    name: str
    n: int


def bad_list_of_str_set(names: List[str]):
    return list(set(names))


def bad_loop_over_objects(items: List[Item]):
    out = []
    for it in set(items):
        out.append(it.n)
    return out


def bad_accumulated_set(items: List[Item]):
    seen = set()
    for it in items:
        seen.add(it)
    return [it.name for it in seen]


def bad_dict_of_sets(items: List[Item]):
    g = defaultdict(set)
    for it in items:
        g[it.n].add(it.name)
    return ",".join(g[0])


def bad_unknown_elements(xs):
    return list(set(xs))


def bad_keyed_sort(items: Set[Item]):
    return sorted(items, key=lambda it: it.n)


def ok_sorted(names: List[str]):
    return sorted(set(names))


def ok_int_set(n: int):
    keep = set(range(n))
    return [i for i in keep]


def ok_membership_only(items: List[Item]):
    seen = set()
    out = []
    for it in items:
        if it not in seen:
            seen.add(it)
            out.append(it)
    return out


def ok_len(items: List[Item]):
    return len(set(items))


# module-level constants: a set of str built from a literal, and one derived by set algebra from a table
LETTERS = frozenset("ACGU")
TABLE = {"A": 1, "C": 2, "G": 3}
DERIVED = LETTERS.intersection(TABLE)
NUMBERS = frozenset(range(4))


def bad_module_constant_loop():
    out = []
    for x in LETTERS:
        out.append(x)
    return out


def bad_module_constant_derived():
    return [x for x in DERIVED]


def bad_walrus_bound_set(items: List[Item]):
    out = []
    while (chunk := set(items[:2])) and len(out) < 4:
        out.append(sorted(chunk, key=lambda it: it.n)[-1])
    return out


def bad_reused_name(items: List[Item]):
    box = {it for it in items}
    first = [it for it in box]
    box = [0 for _ in items]
    return first, box


def ok_module_constant_membership(x: str):
    return x in LETTERS and x not in DERIVED


def ok_module_constant_sorted():
    return [x for x in sorted(DERIVED)]


def ok_module_constant_ints():
    return [n for n in NUMBERS]
