"""Fixture controls for the effect analysis (never part of rnapolis): bad_* must be reported, ok_* must not."""
from dataclasses import dataclass
from typing import List


@dataclass
class E:
    index_: int
    pair: int


class Box:
    def __init__(self, entries: List[E]):
        self.entries = entries
        self.cache = {}

    def bad_shallow_copy(self):
        entries = self.entries.copy()
        entries[0].pair = 0
        return Box(entries)

    def bad_sorted_alias(self):
        for e in sorted(self.entries, key=lambda e: e.index_):
            e.pair = 0

    def bad_mutator(self):
        self.entries.append(E(0, 0))

    def bad_via_helper(self):
        _clear_first(self.entries[1:])

    def bad_comprehension_alias(self):
        xs = [e for e in self.entries if e.pair]
        xs[0].index_ += 1

    def bad_cache_clear(self):
        self.cache.clear()

    def ok_fresh_elements(self):
        entries = [E(e.index_, e.pair) for e in self.entries]
        entries[0].pair = 0
        return Box(entries)

    def ok_copy_container_only(self):
        entries = self.entries.copy()
        entries.append(E(0, 0))
        entries.sort(key=lambda e: e.index_)
        return len(entries)

    def ok_read_only(self):
        total = 0
        for e in self.entries:
            total += e.pair
        return total


def _clear_first(xs):
    xs[0].pair = 0
